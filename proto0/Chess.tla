------------------------------- MODULE Chess -------------------------------
EXTENDS Integers, Sequences, FiniteSets

Sq == 0..63
File(s) == s % 8
Rank(s) == s \div 8
At(f, r) == r*8 + f
OnBoard(f, r) == f \in 0..7 /\ r \in 0..7

PAWN == 1  KNIGHT == 2  BISHOP == 3  ROOK == 4  QUEEN == 5  KING == 6
Color(pc) == IF pc = 0 THEN 2 ELSE IF pc <= 6 THEN 0 ELSE 1
Kind(pc) == IF pc <= 6 THEN pc ELSE pc - 6
Mk(c, k) == k + 6*c
Opp(c) == 1 - c

Dirs == << <<1,0>>, <<-1,0>>, <<0,1>>, <<0,-1>>, <<1,1>>, <<1,-1>>, <<-1,1>>, <<-1,-1>> >>

RECURSIVE RayFrom(_,_,_,_)
RayFrom(f, r, df, dr) == IF OnBoard(f+df, r+dr) THEN <<At(f+df, r+dr)>> \o RayFrom(f+df, r+dr, df, dr) ELSE <<>>

Ray == [s \in Sq |-> [d \in 1..8 |-> RayFrom(File(s), Rank(s), Dirs[d][1], Dirs[d][2])]]

KnightD == { <<1,2>>, <<2,1>>, <<-1,2>>, <<-2,1>>, <<1,-2>>, <<2,-1>>, <<-1,-2>>, <<-2,-1>> }
KingD == { <<1,0>>, <<-1,0>>, <<0,1>>, <<0,-1>>, <<1,1>>, <<1,-1>>, <<-1,1>>, <<-1,-1>> }
Steps(s, D) == { At(File(s)+d[1], Rank(s)+d[2]) : d \in { e \in D : OnBoard(File(s)+e[1], Rank(s)+e[2]) } }
KnightT == [s \in Sq |-> Steps(s, KnightD)]
KingT == [s \in Sq |-> Steps(s, KingD)]
\* squares from which a pawn of colour c attacks s
PawnAttFrom == [c \in 0..1 |-> [s \in Sq |-> Steps(s, IF c = 0 THEN {<<1,-1>>, <<-1,-1>>} ELSE {<<1,1>>, <<-1,1>>})]]
\* squares a pawn of colour c on s attacks
PawnAttTo == [c \in 0..1 |-> [s \in Sq |-> Steps(s, IF c = 0 THEN {<<1,1>>, <<-1,1>>} ELSE {<<1,-1>>, <<-1,-1>>})]]

RECURSIVE FirstOcc(_,_,_)
FirstOcc(b, ray, i) == IF i > Len(ray) THEN i ELSE IF b[ray[i]+1] # 0 THEN i ELSE FirstOcc(b, ray, i+1)

\* board b is a sequence of 64 piece codes, index sq+1
PcAt(b, s) == b[s+1]

SliderHits(b, s, c) ==
  \E d \in 1..8 : LET ray == Ray[s][d]
                      i == FirstOcc(b, ray, 1)
                  IN i <= Len(ray) /\ LET pc == b[ray[i]+1] IN
                        pc = Mk(c, QUEEN) \/ pc = Mk(c, IF d <= 4 THEN ROOK ELSE BISHOP)

Attacked(b, s, c) ==
  \/ \E t \in PawnAttFrom[c][s] : b[t+1] = Mk(c, PAWN)
  \/ \E t \in KnightT[s] : b[t+1] = Mk(c, KNIGHT)
  \/ \E t \in KingT[s] : b[t+1] = Mk(c, KING)
  \/ SliderHits(b, s, c)

KingSq(b, c) == CHOOSE s \in Sq : b[s+1] = Mk(c, KING)
HasKing(b, c) == \E s \in Sq : b[s+1] = Mk(c, KING)
InCheck(b, c) == HasKing(b, c) /\ Attacked(b, KingSq(b, c), Opp(c))

RayTargets(b, c, ray) ==
  LET i == FirstOcc(b, ray, 1)
  IN { ray[j] : j \in 1..(i-1) } \cup (IF i <= Len(ray) /\ Color(b[ray[i]+1]) # c THEN {ray[i]} ELSE {})

SliderTargets(b, c, s, ds) == UNION { RayTargets(b, c, Ray[s][d]) : d \in ds }

Mv(f, t, p) == [f |-> f, t |-> t, p |-> p]
PromoKinds == {KNIGHT, BISHOP, ROOK, QUEEN}

PawnMoves(pos, s) ==
  LET b == pos.b  c == pos.turn
      dr == IF c = 0 THEN 1 ELSE -1
      startR == IF c = 0 THEN 1 ELSE 6
      lastR == IF c = 0 THEN 7 ELSE 0
      one == s + 8*dr
      pushes == IF b[one+1] = 0
                THEN {one} \cup (IF Rank(s) = startR /\ b[one + 8*dr + 1] = 0 THEN {one + 8*dr} ELSE {})
                ELSE {}
      caps == { t \in PawnAttTo[c][s] : (b[t+1] # 0 /\ Color(b[t+1]) = Opp(c)) \/ t = pos.ep }
      ts == pushes \cup caps
  IN UNION { IF Rank(t) = lastR THEN { Mv(s, t, k) : k \in PromoKinds } ELSE { Mv(s, t, 0) } : t \in ts }

\* castling rights: 4-bit int, 1=K 2=Q 4=k 8=q
HasRight(cr, bit) == (cr \div bit) % 2 = 1

CastleMoves(pos) ==
  LET b == pos.b  c == pos.turn
      r == IF c = 0 THEN 0 ELSE 7
      e == At(4, r)
      ok(bit, empties, safe, rookSq) ==
          /\ HasRight(pos.cr, bit)
          /\ b[e+1] = Mk(c, KING) /\ b[rookSq+1] = Mk(c, ROOK)
          /\ \A x \in empties : b[x+1] = 0
          /\ \A x \in safe : ~Attacked(b, x, Opp(c))
  IN (IF ok(IF c = 0 THEN 1 ELSE 4, {At(5,r), At(6,r)}, {At(4,r), At(5,r), At(6,r)}, At(7,r)) THEN {Mv(e, At(6,r), 0)} ELSE {})
     \cup
     (IF ok(IF c = 0 THEN 2 ELSE 8, {At(1,r), At(2,r), At(3,r)}, {At(4,r), At(3,r), At(2,r)}, At(0,r)) THEN {Mv(e, At(2,r), 0)} ELSE {})

PieceMoves(pos, s) ==
  LET b == pos.b  c == pos.turn  k == Kind(b[s+1])
      free(T) == { t \in T : Color(b[t+1]) # c }
  IN CASE k = PAWN -> PawnMoves(pos, s)
       [] k = KNIGHT -> { Mv(s, t, 0) : t \in free(KnightT[s]) }
       [] k = KING -> { Mv(s, t, 0) : t \in free(KingT[s]) }
       [] k = ROOK -> { Mv(s, t, 0) : t \in SliderTargets(b, c, s, 1..4) }
       [] k = BISHOP -> { Mv(s, t, 0) : t \in SliderTargets(b, c, s, 5..8) }
       [] k = QUEEN -> { Mv(s, t, 0) : t \in SliderTargets(b, c, s, 1..8) }

IsCastle(pos, m) == Kind(pos.b[m.f+1]) = KING /\ (m.t - m.f = 2 \/ m.f - m.t = 2)
IsEP(pos, m) == Kind(pos.b[m.f+1]) = PAWN /\ m.t = pos.ep /\ File(m.f) # File(m.t)
IsDouble(pos, m) == Kind(pos.b[m.f+1]) = PAWN /\ (m.t - m.f = 16 \/ m.f - m.t = 16)

RightsLost(s) == CASE s = 4 -> 3 [] s = 0 -> 2 [] s = 7 -> 1 [] s = 60 -> 12 [] s = 56 -> 8 [] s = 63 -> 4 [] OTHER -> 0
\* remove bits of l from cr
Strip(cr, l) == LET bitoff(x, bit) == IF HasRight(l, bit) /\ HasRight(x, bit) THEN x - bit ELSE x
                IN bitoff(bitoff(bitoff(bitoff(cr, 1), 2), 4), 8)

Apply(pos, m) ==
  LET b == pos.b  c == pos.turn  pc == b[m.f+1]
      placed == IF m.p # 0 THEN Mk(c, m.p) ELSE pc
      b1 == [b EXCEPT ![m.f+1] = 0, ![m.t+1] = placed]
      b2 == IF IsEP(pos, m) THEN [b1 EXCEPT ![At(File(m.t), Rank(m.f))+1] = 0]
            ELSE IF IsCastle(pos, m)
                 THEN IF m.t > m.f THEN [b1 EXCEPT ![m.f+3+1] = 0, ![m.f+1+1] = Mk(c, ROOK)]
                                   ELSE [b1 EXCEPT ![m.f-4+1] = 0, ![m.f-1+1] = Mk(c, ROOK)]
                 ELSE b1
  IN [b |-> b2, turn |-> Opp(c),
      cr |-> Strip(Strip(pos.cr, RightsLost(m.f)), RightsLost(m.t)),
      ep |-> IF IsDouble(pos, m) THEN (m.f + m.t) \div 2 ELSE -1]

Pseudo(pos) == UNION { PieceMoves(pos, s) : s \in { x \in Sq : Color(pos.b[x+1]) = pos.turn } } \cup CastleMoves(pos)

Legal(pos) == { m \in Pseudo(pos) : ~InCheck(Apply(pos, m).b, pos.turn) }
=============================================================================
