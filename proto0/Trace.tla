------------------------------- MODULE Trace -------------------------------
EXTENDS Chess, Json, TLC

Tr == ndJsonDeserialize("trace.ndjson")
VARIABLE l
Init == l = 1
Pos(e) == [b |-> e.b, turn |-> e.turn, cr |-> e.cr, ep |-> e.ep]
ToSet(s) == { Mv(s[i][1], s[i][2], s[i][3]) : i \in 1..Len(s) }
Next == /\ l <= Len(Tr)
        /\ LET e == Tr[l] IN Legal(Pos(e)) = ToSet(e.moves) /\ Len(e.moves) = Cardinality(ToSet(e.moves))
        /\ l' = l + 1
Spec == Init /\ [][Next]_l
Accepted == TLCGet("stats").diameter - 1 = Len(Tr)
=============================================================================
