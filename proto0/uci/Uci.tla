-------------------------------- MODULE Uci --------------------------------
EXTENDS Integers, Sequences, FiniteSets, TLC

CONSTANTS MaxCmds, NS, MaxDepth, QuitHalts, StopCompletesOnOk
\* QuitHalts: quit path runs ensureInactive first (intended) or not (as coded)
\* StopCompletesOnOk: stop completes the search when Halt succeeded (intended) or when it failed (as coded)

K == 1..NS
Cmds == {"isready", "pos", "go_d", "go_inf", "stop", "quit"}

VARIABLES lpc, lcmd, ncmd, nsearch, active, eact, S, F, pond, outClosed, panic, best, ready, asked, cur, haltOk

vars == <<lpc, lcmd, ncmd, nsearch, active, eact, S, F, pond, outClosed, panic, best, ready, asked, cur, haltOk>>

NoSearch == [st |-> "none", iters |-> 0, init |-> FALSE, quit |-> FALSE, canc |-> FALSE,
             slot |-> 0, closed |-> FALSE, hpv |-> 0, lim |-> 0, inf |-> FALSE]
NoFwd == [pc |-> "none", last |-> 0]

Init == /\ lpc = "select" /\ lcmd = "none" /\ ncmd = 0 /\ nsearch = 0
        /\ active = FALSE /\ eact = 0
        /\ S = [k \in K |-> NoSearch] /\ F = [k \in K |-> NoFwd]
        /\ pond = 0 /\ outClosed = FALSE /\ panic = FALSE
        /\ best = [k \in K |-> 0] /\ ready = 0 /\ asked = 0 /\ cur = 0 /\ haltOk = FALSE

Send(k) == IF outClosed THEN panic' = TRUE /\ UNCHANGED best
           ELSE panic' = panic /\ best' = [best EXCEPT ![k] = @ + 1]

\* ---------------- command loop ----------------
ReadCmd ==
  /\ lpc = "select" /\ ncmd < MaxCmds
  /\ \E c \in Cmds :
       /\ (c \in {"go_d", "go_inf"} => nsearch < NS)
       /\ ncmd' = ncmd + 1 /\ lcmd' = c
       /\ CASE c = "isready" -> /\ lpc' = "select" /\ ready' = ready + 1 /\ asked' = asked + 1
                               /\ UNCHANGED <<active>>
            [] c = "pos" -> lpc' = "off" /\ UNCHANGED <<ready, asked, active>>
            [] c \in {"go_d", "go_inf"} -> lpc' = "off" /\ UNCHANGED <<ready, asked, active>>
            [] c = "stop" -> lpc' = "halt" /\ UNCHANGED <<ready, asked, active>>
            [] c = "quit" -> lpc' = (IF QuitHalts THEN "off" ELSE "close") /\ UNCHANGED <<ready, asked, active>>
  /\ UNCHANGED <<nsearch, eact, S, F, pond, outClosed, panic, best, cur, haltOk>>

ReadPonder ==
  /\ lpc = "select" /\ pond > 0
  /\ pond' = pond - 1
  /\ UNCHANGED <<lpc, lcmd, ncmd, nsearch, active, eact, S, F, outClosed, panic, best, ready, asked, cur, haltOk>>

\* ensureInactive step 1
ActiveOff ==
  /\ lpc = "off" /\ active' = FALSE /\ lpc' = "halt"
  /\ UNCHANGED <<lcmd, ncmd, nsearch, eact, S, F, pond, outClosed, panic, best, ready, asked, cur, haltOk>>

\* Engine.Halt: blocks until the active search (if any) has init closed
EngineHalt ==
  /\ lpc = "halt"
  /\ IF eact = 0
       THEN /\ haltOk' = FALSE /\ UNCHANGED <<S, eact>>
       ELSE /\ S[eact].init
            /\ S' = [S EXCEPT ![eact].quit = TRUE]
            /\ eact' = 0 /\ haltOk' = TRUE
  /\ lpc' = CASE lcmd = "pos" -> "select"
              [] lcmd \in {"go_d", "go_inf"} -> "analyze"
              [] lcmd = "stop" -> "stopdone"
              [] lcmd = "quit" -> "close"
  /\ UNCHANGED <<lcmd, ncmd, nsearch, active, F, pond, outClosed, panic, best, ready, asked, cur>>

StopDone ==
  /\ lpc = "stopdone"
  /\ IF haltOk = StopCompletesOnOk
       THEN IF active THEN active' = FALSE /\ lpc' = "stopsend" ELSE lpc' = "select" /\ UNCHANGED active
       ELSE lpc' = "select" /\ UNCHANGED active
  /\ UNCHANGED <<lcmd, ncmd, nsearch, eact, S, F, pond, outClosed, panic, best, ready, asked, cur, haltOk>>

StopSend ==
  /\ lpc = "stopsend" /\ Send(cur) /\ lpc' = "select"
  /\ UNCHANGED <<lcmd, ncmd, nsearch, active, eact, S, F, pond, outClosed, ready, asked, cur, haltOk>>

Analyze ==
  /\ lpc = "analyze"
  /\ LET k == nsearch + 1 IN
       /\ nsearch' = k /\ eact' = k /\ cur' = k
       /\ S' = [S EXCEPT ![k] = [NoSearch EXCEPT !.st = "run", !.lim = (IF lcmd = "go_d" THEN MaxDepth ELSE 0), !.inf = (lcmd = "go_inf")]]
  /\ lpc' = "activate"
  /\ UNCHANGED <<lcmd, ncmd, active, F, pond, outClosed, panic, best, ready, asked, haltOk>>

Activate ==
  /\ lpc = "activate" /\ active' = TRUE /\ lpc' = "spawn"
  /\ UNCHANGED <<lcmd, ncmd, nsearch, eact, S, F, pond, outClosed, panic, best, ready, asked, cur, haltOk>>

Spawn ==
  /\ lpc = "spawn" /\ F' = [F EXCEPT ![cur].pc = "recv"] /\ lpc' = "select"
  /\ UNCHANGED <<lcmd, ncmd, nsearch, active, eact, S, pond, outClosed, panic, best, ready, asked, cur, haltOk>>

CloseOut ==
  /\ lpc = "close" /\ outClosed' = TRUE /\ lpc' = "exited"
  /\ UNCHANGED <<lcmd, ncmd, nsearch, active, eact, S, F, pond, panic, best, ready, asked, cur, haltOk>>

\* ---------------- search goroutine k ----------------
IterFinish(k) ==
  /\ S[k].st = "run" /\ ~S[k].canc /\ S[k].iters < MaxDepth
  /\ LET d == S[k].iters + 1 IN
       S' = [S EXCEPT ![k].iters = d, ![k].hpv = d, ![k].slot = d, ![k].init = TRUE,
                      ![k].st = IF (S[k].lim # 0 /\ d = S[k].lim) \/ S[k].quit THEN "closing" ELSE "run"]
  /\ UNCHANGED <<lpc, lcmd, ncmd, nsearch, active, eact, F, pond, outClosed, panic, best, ready, asked, cur, haltOk>>

SeeCancel(k) ==
  /\ S[k].st = "run" /\ S[k].canc
  /\ S' = [S EXCEPT ![k].st = "closing"]
  /\ UNCHANGED <<lpc, lcmd, ncmd, nsearch, active, eact, F, pond, outClosed, panic, best, ready, asked, cur, haltOk>>

CancelDeliver(k) ==
  /\ S[k].quit /\ ~S[k].canc /\ S[k].st # "none"
  /\ S' = [S EXCEPT ![k].canc = TRUE]
  /\ UNCHANGED <<lpc, lcmd, ncmd, nsearch, active, eact, F, pond, outClosed, panic, best, ready, asked, cur, haltOk>>

SearchExit(k) ==
  /\ S[k].st = "closing"
  /\ S' = [S EXCEPT ![k].st = "exit", ![k].closed = TRUE, ![k].init = TRUE]
  /\ UNCHANGED <<lpc, lcmd, ncmd, nsearch, active, eact, F, pond, outClosed, panic, best, ready, asked, cur, haltOk>>

\* ---------------- forwarder goroutine k ----------------
FwdRecv(k) ==
  /\ F[k].pc = "recv"
  /\ \/ /\ S[k].slot # 0
        /\ F' = [F EXCEPT ![k].last = S[k].slot, ![k].pc = "pond"]
        /\ S' = [S EXCEPT ![k].slot = 0]
     \/ /\ S[k].slot = 0 /\ S[k].closed
        /\ F' = [F EXCEPT ![k].pc = IF S[k].inf THEN "exit" ELSE "cas"]
        /\ UNCHANGED S
  /\ UNCHANGED <<lpc, lcmd, ncmd, nsearch, active, eact, pond, outClosed, panic, best, ready, asked, cur, haltOk>>

FwdPonder(k) ==
  /\ F[k].pc = "pond" /\ pond < 3
  /\ pond' = pond + 1 /\ F' = [F EXCEPT ![k].pc = "recv"]
  /\ UNCHANGED <<lpc, lcmd, ncmd, nsearch, active, eact, S, outClosed, panic, best, ready, asked, cur, haltOk>>

FwdCas(k) ==
  /\ F[k].pc = "cas"
  /\ IF active THEN active' = FALSE /\ F' = [F EXCEPT ![k].pc = "send"]
               ELSE UNCHANGED active /\ F' = [F EXCEPT ![k].pc = "exit"]
  /\ UNCHANGED <<lpc, lcmd, ncmd, nsearch, eact, S, pond, outClosed, panic, best, ready, asked, cur, haltOk>>

FwdSend(k) ==
  /\ F[k].pc = "send" /\ Send(k) /\ F' = [F EXCEPT ![k].pc = "exit"]
  /\ UNCHANGED <<lpc, lcmd, ncmd, nsearch, active, eact, S, pond, outClosed, ready, asked, cur, haltOk>>

Done == lpc = "exited" \/ (lpc = "select" /\ ncmd = MaxCmds)
Idle == Done /\ UNCHANGED vars

Next == ReadCmd \/ ReadPonder \/ ActiveOff \/ EngineHalt \/ StopDone \/ StopSend \/ Analyze \/ Activate \/ Spawn \/ CloseOut
        \/ (\E k \in K : IterFinish(k) \/ SeeCancel(k) \/ CancelDeliver(k) \/ SearchExit(k)
                        \/ FwdRecv(k) \/ FwdPonder(k) \/ FwdCas(k) \/ FwdSend(k))
        \/ Idle

Spec == Init /\ [][Next]_vars

NoPanic == ~panic
AtMostOneBest == \A k \in K : best[k] <= 1
NoStaleBest == [][\A k \in K : best'[k] > best[k] => k = cur]_vars
ReadyOk == ready = asked
View == <<lpc, lcmd, ncmd, nsearch, active, eact, S, F, pond, outClosed, panic, best, cur, haltOk>>
=============================================================================
