SPECIFICATION Spec
CONSTANTS MaxCmds = 4 NS = 2 MaxDepth = 2 QuitHalts = TRUE StopCompletesOnOk = TRUE
INVARIANTS AtMostOneBest ReadyOk
PROPERTIES NoStaleBest
VIEW View
