------------------------------ MODULE MCChess ------------------------------
(***************************************************************************)
(* Model checking of the rules specification itself (no code involved):    *)
(*  - Perft anchors: node counts of the standard perft positions, computed *)
(*    by Chess!Legal / Chess!Apply, must equal the published values;       *)
(*  - the game graph below each start position, to MaxDepth plies:         *)
(*    every reachable position is well-formed, FEN round-trips, the        *)
(*    incremental hash update equals hashing from scratch for every legal  *)
(*    move, the attack relation is symmetric for officers, and the colour  *)
(*    mirror commutes with Legal and Apply.                                *)
(***************************************************************************)
EXTENDS Zobrist, Fen

CONSTANTS StartFens, MaxDepth, PerftDepth

P(f) == Decode(f).pos

Anchors == <<
  <<"rnbqkbnr/pppppppp/8/8/8/8/PPPPPPPP/RNBQKBNR w KQkq - 0 1", <<20, 400, 8902, 197281>> >>,
  <<"r3k2r/p1ppqpb1/bn2pnp1/3PN3/1p2P3/2N2Q1p/PPPBBPPP/R3K2R w KQkq - 0 1", <<48, 2039, 97862>> >>,
  <<"8/2p5/3p4/KP5r/1R3p1k/8/4P1P1/8 w - - 0 1", <<14, 191, 2812, 43238>> >>,
  <<"r3k2r/Pppp1ppp/1b3nbN/nP6/BBP1P3/q4N2/Pp1P2PP/R2Q1RK1 w kq - 0 1", <<6, 264, 9467>> >>,
  <<"rnbq1k1r/pp1Pbppp/2p5/8/2B5/8/PPP1NnPP/RNBQK2R w KQ - 1 8", <<44, 1486, 62379>> >>,
  <<"r4rk1/1pp1qppp/p1np1n2/2b1p1B1/2B1P1b1/P1NP1N2/1PP1QPPP/R4RK1 w - - 0 10", <<46, 2079, 89890>> >>
>>

PerftOK == \A i \in 1..Len(Anchors) :
             \A d \in 1..PerftDepth :
                d <= Len(Anchors[i][2]) => Perft(P(Anchors[i][1]), d) = Anchors[i][2][d]

ASSUME PerftOK
ASSUME \A f \in StartFens : Decode(f).ok /\ Canonical(f)

VARIABLES pos, d
vars == <<pos, d>>

Init == \E f \in StartFens : pos = P(f) /\ d = 0
Next == /\ d < MaxDepth
        /\ \E m \in Legal(pos) : pos' = Apply(pos, m)
        /\ d' = d + 1
Spec == Init /\ [][Next]_vars

WellFormedInv == WellFormed(pos)
FenInv == RoundTrip(pos, d, d + 1)
ZobristInv == \A m \in Legal(pos) : IncrementalIsScratch(pos, m)
\* officers attack symmetrically: t in Attacks(s) iff s in Attacks(t), same occupancy
AttackSymmetry == \A k \in {KNIGHT, BISHOP, ROOK, QUEEN, KING} :
                    \A s \in Pieces(pos.b) : \A t \in Attacks(pos.b, s, k) : s \in Attacks(pos.b, t, k)
MirrorInv == /\ Mirror(Mirror(pos)) = pos
             /\ { MirrorMv(m) : m \in Legal(pos) } = Legal(Mirror(pos))
             /\ \A m \in Legal(pos) : Mirror(Apply(pos, m)) = Apply(Mirror(pos), MirrorMv(m))
             /\ \A m \in Legal(pos) : MoveKind(Mirror(pos), MirrorMv(m)) = MoveKind(pos, m)
             /\ InCheck(pos.b, pos.turn) = InCheck(Mirror(pos).b, Mirror(pos).turn)
=============================================================================
