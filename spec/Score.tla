------------------------------- MODULE Score -------------------------------
(***************************************************************************)
(* The order of search scores (C09; used by Search.tla for C03 C11 C12 C13).*)
(*                                                                         *)
(*   lost < mated sooner < mated later < every heuristic value             *)
(*        < mating later < mating sooner < won                             *)
(*                                                                         *)
(* A score is a record [t, m, v]:  t = "L" lost, "W" won, "M" mate in m    *)
(* plies (m < 0: being mated in -m plies), "H" heuristic with integer key  *)
(* v.  The harness maps a float32 evaluation p to the key                  *)
(* sign(p) * bits(|p|) (0 for +-0): order-isomorphic to float32's order on *)
(* non-NaN values, commutes with negation, fits TLC's 32-bit integers.     *)
(***************************************************************************)
EXTENDS Integers

Lost == [t |-> "L", m |-> 0, v |-> 0]
Won  == [t |-> "W", m |-> 0, v |-> 0]
Mate(k) == [t |-> "M", m |-> k, v |-> 0]
H(x) == [t |-> "H", m |-> 0, v |-> x]

Class(s) == CASE s.t = "L" -> 0
              [] s.t = "M" /\ s.m < 0 -> 1
              [] s.t = "H" -> 2
              [] s.t = "M" /\ s.m > 0 -> 3
              [] s.t = "W" -> 4

Less(a, b) ==
  \/ Class(a) < Class(b)
  \/ /\ Class(a) = Class(b)
     /\ CASE Class(a) = 1 -> a.m > b.m      \* M-1 < M-2: mated sooner is worse
          [] Class(a) = 2 -> a.v < b.v
          [] Class(a) = 3 -> a.m > b.m      \* M2 < M1: mating sooner is better
          [] OTHER -> FALSE

Neg(s) == CASE s.t = "L" -> Won
            [] s.t = "W" -> Lost
            [] s.t = "M" -> Mate(-s.m)
            [] s.t = "H" -> H(-s.v)

\* one more ply to the (forced) mate; heuristic values do not change
Inc(s) == CASE s.t = "L" -> Mate(-1)
            [] s.t = "W" -> Mate(1)
            [] s.t = "M" -> Mate(IF s.m < 0 THEN s.m - 1 ELSE s.m + 1)
            [] s.t = "H" -> s

\* one ply less: the inverse of Inc on its range (used to shift a search window to the child's frame);
\* decided scores and heuristic values do not change
Dec(s) == CASE s.t = "M" /\ s.m = 1 -> Won
            [] s.t = "M" /\ s.m = -1 -> Lost
            [] s.t = "M" -> Mate(IF s.m < 0 THEN s.m + 1 ELSE s.m - 1)
            [] OTHER -> s

Max(a, b) == IF Less(a, b) THEN b ELSE a
Min(a, b) == IF Less(a, b) THEN a ELSE b
Leq(a, b) == ~Less(b, a)

\* plies to mate, -1 if not a decided/mate score
MateDistance(s) == CASE s.t = "M" -> (IF s.m < 0 THEN -s.m ELSE s.m)
                     [] s.t \in {"L", "W"} -> 0
                     [] OTHER -> -1
=============================================================================
