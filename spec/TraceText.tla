----------------------------- MODULE TraceText ------------------------------
(***************************************************************************)
(* Trace validation for textual input (C19; canonical FEN part of C14).    *)
(*                                                                         *)
(*  fenstr   a string handed to the real FEN decoder and what came back:   *)
(*           never a crash; an error or a value; a value is well-formed    *)
(*           (consistent views) and re-encodes to a FEN that decodes to    *)
(*           the same position; a canonical FEN (Fen!Canonical, decided    *)
(*           here, not by the harness) must be accepted and reproduced.    *)
(*           Rejecting or accepting a NON-canonical string is not          *)
(*           prescribed -- only the consequences of accepting are.         *)
(*  movestr  a string handed to a real game: accepted exactly when it      *)
(*           denotes a legal move of the current position (Chess!Legal);   *)
(*           rejected input leaves the game state unchanged.               *)
(***************************************************************************)
EXTENDS Fen, Json, IOUtils, TLC

CONSTANT Props
Tr == ndJsonDeserialize(IOEnv.TRACE)
VARIABLES l
Want(p) == p \in Props
Chk(name, cond) == IF cond THEN {} ELSE {name}

JudgeFen(e) ==
  LET can == Canonical(e.s) IN
  (IF ~Want("C19") THEN {} ELSE
     Chk("c19.fen-crash", e.outcome # "crash")
  \cup Chk("c19.fen-neither-error-nor-value", e.outcome # "nil")
  \cup (IF e.outcome = "value"
        THEN Chk("c19.fen-inconsistent-value", e.val.consistent = 1)
             \cup Chk("c19.fen-reencode-differs", e.val.dec2.ok /\ e.val.dec2.pos = e.val.pos /\ e.val.dec2.np = e.val.np /\ e.val.dec2.fm = e.val.fm
                                                 /\ e.val.dec2.moves = e.val.moves)
        ELSE {}))
  \cup (IF can /\ Want("C14")
        THEN Chk("c14.canonical-rejected", e.outcome = "value")
             \cup (IF e.outcome = "value"
                   THEN LET d == Decode(e.s) IN
                        Chk("c14.canonical-decoded-wrong", e.val.pos = d.pos /\ e.val.np = ToString(d.np) /\ e.val.fm = ToString(d.fm))
                        \cup Chk("c14.canonical-not-reproduced", e.val.reenc = e.s)
                   ELSE {})
        ELSE {})

(* the move a string denotes in coordinate notation: <<ok, move, canonical>> *)
LowerFiles == <<"a", "b", "c", "d", "e", "f", "g", "h">>
UpperFiles == <<"A", "B", "C", "D", "E", "F", "G", "H">>
FileOf(ch) == LET S == { f \in 1..8 : LowerFiles[f] = ch \/ UpperFiles[f] = ch } IN IF S = {} THEN -1 ELSE (CHOOSE f \in S : TRUE) - 1
RankOf(ch) == LET S == { r \in 1..8 : ToString(r) = ch } IN IF S = {} THEN -1 ELSE (CHOOSE r \in S : TRUE) - 1
PromoOf(ch) == CASE ch = "q" \/ ch = "Q" -> QUEEN [] ch = "r" \/ ch = "R" -> ROOK
                 [] ch = "b" \/ ch = "B" -> BISHOP [] ch = "n" \/ ch = "N" -> KNIGHT [] OTHER -> -1
IsLowerMove(s) == \A i \in 1..Len(s) : Ch(s, i) \notin {"A", "B", "C", "D", "E", "F", "G", "H", "Q", "R", "N"}
Denotes(s) ==
  IF Len(s) \notin {4, 5} THEN [ok |-> FALSE]
  ELSE LET f1 == FileOf(Ch(s, 1)) r1 == RankOf(Ch(s, 2)) f2 == FileOf(Ch(s, 3)) r2 == RankOf(Ch(s, 4))
           p == IF Len(s) = 5 THEN PromoOf(Ch(s, 5)) ELSE 0
       IN IF f1 = -1 \/ r1 = -1 \/ f2 = -1 \/ r2 = -1 \/ p = -1 THEN [ok |-> FALSE]
          ELSE [ok |-> TRUE, m |-> Mv(At(f1, r1), At(f2, r2), p), canonical |-> IsLowerMove(s)]

JudgeMove(e) ==
  LET pos == e.rec0.pos
      d == Denotes(e.s)
      legal == d.ok /\ d.m \in Legal(pos)
  IN IF ~WellFormed(pos) \/ ~Want("C19") THEN {}
     ELSE Chk("c19.move-crash", e.outcome # "crash")
     \cup Chk("c19.move-never-returns", e.outcome # "hang")
     \cup Chk("c19.move-accepted-not-legal", e.outcome = "accepted" => legal)
     \cup Chk("c19.move-legal-rejected", (legal /\ d.canonical) => e.outcome = "accepted")
     \cup (IF e.outcome = "accepted" /\ legal
           THEN Chk("c19.move-wrong-successor", e.rec1.pos = Apply(pos, d.m) /\ e.rec1.ply = e.rec0.ply + 1 /\ e.rec1.last = <<d.m.f, d.m.t, d.m.p>>)
           ELSE {})
     \cup (IF e.outcome # "accepted"
           THEN Chk("c19.rejected-changed-state", e.rec1 = e.rec0)
           ELSE {})

Init == l = 1
Next == /\ l <= Len(Tr)
        /\ LET e == Tr[l]
               f == IF e.op = "fenstr" THEN JudgeFen(e) ELSE IF e.op = "movestr" THEN JudgeMove(e) ELSE {}
           IN f # {} => PrintT("FAIL|" \o ToString(l) \o "|" \o ToString(f))
        /\ l' = l + 1
Spec == Init /\ [][Next]_l
Accepted == TLCGet("stats").diameter - 1 = Len(Tr)
=============================================================================
