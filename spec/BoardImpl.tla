------------------------------ MODULE BoardImpl ------------------------------
(***************************************************************************)
(* The game board AS IMPLEMENTED (pkg/board/board.go), model-checked as a  *)
(* refinement of Board.tla over the abstract game of MCBoard:              *)
(*                                                                         *)
(*   heap of nodes  [pos, np, next, prev]   -- prev-linked, shared between *)
(*                                             a board and its forks       *)
(*   board          [cur, reps, castled, ply, moves, turn, result]         *)
(*                  reps: position -> count (the implementation's          *)
(*                  repetition map, keyed by hash; a hash IS the position  *)
(*                  here, collisions are C07's business)                   *)
(*                                                                         *)
(* PushMove / PopMove / Fork / AdjudicateNoLegalMoves are written branch   *)
(* for branch like the code: the repetition map is consulted first and the *)
(* true count is obtained by walking back at most `noprogress' nodes; the  *)
(* castled flag is cleared on take-back by looking at prev.next; the       *)
(* full-move counter moves with Black's moves.                             *)
(*                                                                         *)
(* WalkInclusive / CastleResets select the two behaviours the code first   *)
(* had (walk i < limit; castling restarts the clock): with them TLC        *)
(* rejects the refinement, which keeps the check from being vacuous.       *)
(***************************************************************************)
EXTENDS Integers, Sequences, FiniteSets

CONSTANTS MaxOps, NBoards, WalkInclusive, CastleResets, NPLimit

\* ---- the abstract game (same as MCBoard) ----
APos(place, turn, rights) == <<place, turn, rights>>
ALegal(p) == CASE p[1] \in 0..2 -> {"a", "b", "x"} \cup (IF p[3] THEN {"c"} ELSE {}) \cup (IF p[1] = 2 THEN {"m"} ELSE {})
               [] p[1] = 3 -> {"s"}
               [] OTHER -> {}
AApply(p, m) == CASE m = "a" -> APos((p[1] + 1) % 3, 1 - p[2], p[3])
                  [] m = "b" -> APos((p[1] + 2) % 3, 1 - p[2], p[3])
                  [] m = "x" -> APos(3, 1 - p[2], FALSE)
                  [] m = "c" -> APos(p[1], 1 - p[2], FALSE)
                  [] m = "m" -> APos(4, 1 - p[2], p[3])
                  [] m = "s" -> APos(3, 1 - p[2], p[3])
Limit == NPLimit   \* the no-progress limit of the abstract game (100 in chess)

B == INSTANCE Board WITH
       GLegal <- ALegal, GApply <- AApply,
       GTurn <- LAMBDA p : p[2],
       GResets <- LAMBDA p, m : m = "x",
       GIsCastle <- LAMBDA p, m : m = "c",
       GInCheck <- LAMBDA p : p[2] = 0,
       GMayKill <- LAMBDA p, m : m = "x",
       GInsufficient <- LAMBDA p : p[1] = 3,
       NoMove <- "none", NoProgressLimit <- Limit

Ids == 1..NBoards
Start == APos(0, 0, TRUE)

VARIABLES heap,    \* sequence of nodes (index = node id)
          bd,      \* implementation boards
          spec,    \* the specification boards (Board.tla values), stepped alongside
          live, floor, ops

vars == <<heap, bd, spec, live, floor, ops>>

Node(pos, np, prev) == [pos |-> pos, np |-> np, next |-> "none", prev |-> prev]
EmptyReps == [p \in {} |-> 0]
Count(reps, p) == IF p \in DOMAIN reps THEN reps[p] ELSE 0
Bump(reps, p, d) == [q \in (DOMAIN reps) \cup {p} |-> Count(reps, q) + (IF q = p THEN d ELSE 0)]

Init == /\ \E np \in {0, NPLimit - 1} :
             /\ heap = <<Node(Start, np, 0)>>
             /\ spec = [i \in Ids |-> B!NewBoard(Start, np, 1)]
        /\ bd = [i \in Ids |-> [cur |-> 1, reps |-> Bump(EmptyReps, Start, 1), castled |-> <<FALSE, FALSE>>,
                                ply |-> 1, moves |-> 1, turn |-> 0, result |-> "unknown"]]
        /\ live = [i \in Ids |-> i = 1]
        /\ floor = [i \in Ids |-> 1]
        /\ ops = 0

\* identicalPositionCount(n, turn, limit): walk back over prev links
RECURSIVE Walk(_, _, _, _, _)
Walk(h, target, id, i, limit) ==
  IF id = 0 \/ (IF WalkInclusive THEN i > limit ELSE i >= limit) THEN 0
  ELSE (IF h[id].pos = target THEN 1 ELSE 0) + Walk(h, target, h[id].prev, i + 1, limit)
IdenticalCount(h, cur) == 1 + Walk(h, h[cur].pos, h[cur].prev, 1, h[cur].np)

UpdateNoProgress(old, m) == IF m = "x" \/ (CastleResets /\ m = "c") THEN 0 ELSE old + 1

Push(i, m) ==
  /\ live[i]
  /\ LET b == bd[i] cur == b.cur p == heap[cur].pos IN
     /\ b.result \notin {"mate", "stalemate"} /\ m \in ALegal(p)
     /\ LET next == AApply(p, m)
            nid == Len(heap) + 1
            n == Node(next, UpdateNoProgress(heap[cur].np, m), cur)
            h2 == Append([heap EXCEPT ![cur].next = m], n)
            reps2 == Bump(b.reps, next, 1)
            turn2 == 1 - b.turn
            actual == IdenticalCount(h2, nid)
            drawn == \/ (Count(reps2, next) >= 3 /\ actual >= 3)
                     \/ n.np >= Limit
                     \/ (m = "x" /\ next[1] = 3)
        IN /\ heap' = h2
           /\ bd' = [bd EXCEPT ![i] = [cur |-> nid, reps |-> reps2,
                                        castled |-> IF m = "c" THEN [b.castled EXCEPT ![b.turn + 1] = TRUE] ELSE b.castled,
                                        ply |-> b.ply + 1, moves |-> IF turn2 = 0 THEN b.moves + 1 ELSE b.moves,
                                        turn |-> turn2, result |-> IF drawn THEN "draw" ELSE b.result]]
  /\ spec' = [spec EXCEPT ![i] = B!PushOp(@, m)]
  /\ UNCHANGED <<live, floor>>

Pop(i) ==
  /\ live[i] /\ heap[bd[i].cur].prev # 0 /\ bd[i].ply > floor[i]
  /\ LET b == bd[i] cur == b.cur prev == heap[cur].prev IN
     /\ bd' = [bd EXCEPT ![i] = [cur |-> prev, reps |-> Bump(b.reps, heap[cur].pos, -1),
                                  castled |-> IF heap[prev].next = "c" THEN [b.castled EXCEPT ![(1 - b.turn) + 1] = FALSE] ELSE b.castled,
                                  ply |-> b.ply - 1, moves |-> IF 1 - b.turn = 1 THEN b.moves - 1 ELSE b.moves,
                                  turn |-> 1 - b.turn, result |-> "undecided"]]
     /\ heap' = [heap EXCEPT ![prev].next = "none"]
  /\ spec' = [spec EXCEPT ![i] = B!PopOp(@)]
  /\ UNCHANGED <<live, floor>>

Fork(i, j) ==
  /\ live[i] /\ ~live[j]
  /\ LET b == bd[i] c == heap[b.cur] nid == Len(heap) + 1 IN
     /\ heap' = Append(heap, [pos |-> c.pos, np |-> c.np, next |-> "none", prev |-> c.prev])
     /\ bd' = [bd EXCEPT ![j] = [b EXCEPT !.cur = nid]]
  /\ spec' = [spec EXCEPT ![j] = B!ForkOp(spec[i])]
  /\ live' = [live EXCEPT ![j] = TRUE]
  /\ floor' = [floor EXCEPT ![j] = bd[i].ply, ![i] = IF @ < bd[i].ply THEN bd[i].ply ELSE @]

Adjudicate(i) ==
  /\ live[i] /\ ALegal(heap[bd[i].cur].pos) = {}
  /\ bd' = [bd EXCEPT ![i].result = IF heap[bd[i].cur].pos[2] = 0 THEN "mate" ELSE "stalemate"]
  /\ spec' = [spec EXCEPT ![i] = B!AdjudicateOp(@)]
  /\ UNCHANGED <<heap, live, floor>>

Next == /\ ops < MaxOps /\ ops' = ops + 1
        /\ \E i \in Ids : \/ \E m \in {"a", "b", "x", "c", "m", "s"} : Push(i, m)
                          \/ Pop(i) \/ Adjudicate(i)
                          \/ \E j \in Ids : Fork(i, j)
Spec == Init /\ [][Next]_vars

(* ---- what the implementation reports, read the way the accessors read it ---- *)
LastMoveOf(b) == IF heap[b.cur].prev # 0 THEN heap[heap[b.cur].prev].next ELSE "none"
SecondToLastOf(b) == LET p == heap[b.cur].prev IN
                     IF p # 0 /\ heap[p].prev # 0 THEN heap[heap[p].prev].next ELSE "none"
ImplObs(b) == [pos |-> heap[b.cur].pos, np |-> heap[b.cur].np, ply |-> b.ply, fm |-> b.moves,
               castled |-> b.castled, last |-> LastMoveOf(b), last2 |-> SecondToLastOf(b)]
SpecObs(s) == [pos |-> B!Cur(s), np |-> B!NoProgress(s), ply |-> B!Ply(s), fm |-> B!FullMoves(s),
               castled |-> <<B!HasCastled(s, 0), B!HasCastled(s, 1)>>, last |-> B!LastMove(s), last2 |-> B!SecondToLastMove(s)]

\* C08: every live board reports what the specification board reports, after every operation
Refines == \A i \in Ids : live[i] => ImplObs(bd[i]) = SpecObs(spec[i])
\* C05: drawn directly after a move iff the specification says so; never drawn without cause
DrawRefines == \A i \in Ids : live[i] =>
                 /\ (spec[i].fresh /\ B!DrawNow(spec[i])) => bd[i].result = "draw"
                 /\ bd[i].result = "draw" => B!DrawSomewhere(spec[i])
\* the repetition map of each board counts the positions of its own line
RepsExact == \A i \in Ids : live[i] =>
               \A p \in DOMAIN bd[i].reps :
                  bd[i].reps[p] = Cardinality({ k \in 1..Len(spec[i].hist) : spec[i].hist[k].pos = p })
=============================================================================
