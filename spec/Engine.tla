------------------------------- MODULE Engine -------------------------------
(***************************************************************************)
(* The engine object behind both drivers (pkg/engine/engine.go): a board,  *)
(* and at most one search handle.  Every public method runs under the      *)
(* engine's mutex, so one method call = one action.                        *)
(*                                                                         *)
(*   Reset(fen)   halt the search if one is held, THEN decode; a string    *)
(*                that does not decode leaves the board alone (but the     *)
(*                search is gone)                                          *)
(*   Move(text)   text that does not parse: nothing happens at all; else   *)
(*                halt, then push if legal                                 *)
(*   TakeBack     halt, then pop if there is something to pop              *)
(*   Analyze      refused while a handle is held (also one whose search    *)
(*                has finished: only Halt and the mutators let go of it);  *)
(*                else a search is launched on a FORK of the board         *)
(*   Halt         refused without a handle; else the handle is halted and  *)
(*                dropped, and its last line returned                      *)
(*   SetDepth / SetHash   change the options only: the depth takes effect   *)
(*                at the next Analyze without an explicit limit, the hash  *)
(*                size at the next successful Reset (a new table per game; *)
(*                size 0 = no table)                                       *)
(*                                                                         *)
(* Parametric in the game exactly as Board.tla (model-checked over the     *)
(* abstract game in MCEngine, instantiated with chess in TraceUciPos).     *)
(* Beyond the twenty listed properties: specification growth; bound to the *)
(* code by `vh ucipos -api' (x.engine-* notes in C14's evidence).          *)
(***************************************************************************)
EXTENDS Integers, Sequences, FiniteSets

CONSTANTS GLegal(_), GApply(_, _), GTurn(_), GResets(_, _), GIsCastle(_, _), GInCheck(_),
          GMayKill(_, _), GInsufficient(_), NoMove, NoProgressLimit,
          HaltOnMutate      \* TRUE: as coded.  FALSE: TakeBack forgets to halt (rejected by SearchesCurrent)

B == INSTANCE Board

\* engine state: board, whether a handle is held, the line the held search was forked at, the
\* number of searches launched and never halted (a leak counter), the options, the size of the
\* table in use and the number of tables made so far, and the limit the held search runs under
NewEngine(bd, depth, hash) ==
  [bd |-> bd, active |-> FALSE, root |-> <<>>, live |-> 0, depth |-> depth, hash |-> hash, noise |-> 0,
   ttsize |-> hash, tables |-> IF hash > 0 THEN 1 ELSE 0, limit |-> 0]

HaltIfActive(s) == IF s.active THEN [s EXCEPT !.active = FALSE, !.root = <<>>, !.live = @ - 1] ELSE s

\* every call yields [s |-> next state, err |-> the call reports an error]
Reset(s, decodes, bd) ==
  LET s1 == HaltIfActive(s) IN
  IF decodes THEN [s |-> [s1 EXCEPT !.bd = bd, !.ttsize = s.hash, !.tables = IF s.hash > 0 THEN @ + 1 ELSE @], err |-> FALSE]
  ELSE [s |-> s1, err |-> TRUE]

Move(s, parses, m) ==
  IF ~parses THEN [s |-> s, err |-> TRUE]
  ELSE LET s1 == HaltIfActive(s) IN
       IF B!CanPush(s1.bd, m) THEN [s |-> [s1 EXCEPT !.bd = B!PushOp(@, m)], err |-> FALSE]
       ELSE [s |-> s1, err |-> TRUE]

TakeBack(s) ==
  LET s1 == IF HaltOnMutate THEN HaltIfActive(s) ELSE s IN
  IF B!CanPop(s1.bd) THEN [s |-> [s1 EXCEPT !.bd = B!PopOp(@)], err |-> FALSE]
  ELSE [s |-> s1, err |-> TRUE]

\* req: the requested depth limit (0 = explicitly none), or -1 if the caller names none
Analyze(s, req) ==
  IF s.active THEN [s |-> s, err |-> TRUE]
  ELSE [s |-> [s EXCEPT !.active = TRUE, !.root = s.bd.hist, !.live = @ + 1,
                        !.limit = IF req >= 0 THEN req ELSE s.depth], err |-> FALSE]

SetDepth(s, d) == [s |-> [s EXCEPT !.depth = d], err |-> FALSE]
SetHash(s, h) == [s |-> [s EXCEPT !.hash = h], err |-> FALSE]
SetNoise(s, n) == [s |-> [s EXCEPT !.noise = n], err |-> FALSE]

Halt(s) ==
  IF ~s.active THEN [s |-> s, err |-> TRUE] ELSE [s |-> HaltIfActive(s), err |-> FALSE]

\* a search that is held analyses the game the engine holds (position AND the line behind it)
SearchesCurrent(s) == s.active => s.root = s.bd.hist
\* no search is ever left running without a handle
NoLeak(s) == s.live = IF s.active THEN 1 ELSE 0
\* the line returned by Halt starts with a move of the current position (or is empty)
PVFits(s, first) == first = NoMove \/ first \in GLegal(B!Cur(s.bd))
=============================================================================
