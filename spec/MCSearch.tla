------------------------------ MODULE MCSearch ------------------------------
(***************************************************************************)
(* The search ALGORITHM as the code runs it (fail-hard alpha-beta with     *)
(* mate distances incremented on the way up, selective exploration,        *)
(* quiescence with stand pat), model-checked against the reference         *)
(* semantics of Search.tla over bounded families of abstract trees:        *)
(*                                                                         *)
(*   Family = "all"    every tree of depth <= TreeDepth with <= 2 moves    *)
(*                     per node, leaf keys from Keys, and mate / stalemate *)
(*                     / drawn terminals                                   *)
(*   Family = "ladder" a root with 2..3 moves, each the start of a forced  *)
(*                     line (one move per node) of length 1..MaxLen that   *)
(*                     ends in mate, stalemate or a quiet leaf -- the      *)
(*                     family in which equal-length forced mates compete   *)
(*                                                                         *)
(* ShiftWindow selects how the window is handed to a child:                *)
(*   FALSE  (-beta, -alpha)                 -- the code as first written   *)
(*   TRUE   (Dec(-beta), Dec(-alpha))       -- the child's window is the   *)
(*          parent's window seen through the inverse of "negate and add a  *)
(*          ply", so a bound returned by the child maps back onto the      *)
(*          parent's bound exactly                                         *)
(***************************************************************************)
EXTENDS Search, TLC

CONSTANTS Family, TreeDepth, MaxLen, ShiftWindow, SmallLeaves
Keys == IF SmallLeaves THEN {-1, 1} ELSE {-1, 0, 1}

\* Dec (Score.tla): inverse of Inc on its range; Won / Lost (never in the range of Inc) stay
Down(s) == IF ShiftWindow THEN Dec(Neg(s)) ELSE Neg(s)

(* --------------------------- the algorithm ----------------------------- *)
RECURSIVE AB(_, _, _, _, _), ABKids(_, _, _, _, _, _), QS(_, _, _), QSKids(_, _, _, _)

QS(n, a, b) ==
  IF n.d = 1 THEN H(0)
  ELSE IF n.n = 0 THEN NoLegalMove(n)
  ELSE QSKids(n.k, 1, Max(a, H(n.v)), b)
QSKids(ks, i, a, b) ==
  IF i > Len(ks) THEN a
  ELSE LET a2 == IF ks[i].x = 1 THEN Max(a, Up(QS(ks[i], Down(b), Down(a)))) ELSE a
       IN IF a2 = b \/ Less(b, a2) THEN a2 ELSE QSKids(ks, i+1, a2, b)

Leaf(cfg, n, a, b) == CASE cfg = "static" -> H(n.v)
                        [] cfg = "qs" -> QS(n, a, b)

AB(cfg, n, d, a, b) ==
  IF n.d = 1 THEN H(0)
  ELSE IF d = 0 THEN Leaf(cfg, n, a, b)
  ELSE IF n.n = 0 THEN NoLegalMove(n)
  ELSE ABKids(cfg, n.k, d - 1, 1, a, b)
ABKids(cfg, ks, d, i, a, b) ==
  IF i > Len(ks) THEN a
  ELSE LET s == IF ks[i].x = 1 THEN Up(AB(cfg, ks[i], d, Down(b), Down(a))) ELSE a
           a2 == IF Less(a, s) THEN s ELSE a
       IN IF a2 = b \/ Less(b, a2) THEN a2 ELSE ABKids(cfg, ks, d, i+1, a2, b)

(* ------------------------- the tree families --------------------------- *)
Nd(d, c, v, x, ks) == [d |-> d, c |-> c, n |-> Len(ks), v |-> v, x |-> x, mv |-> <<>>, k |-> ks, h |-> ""]
Terminals == { Nd(0, 1, 0, 1, <<>>), Nd(0, 0, 0, 1, <<>>) }                              \* mate, stalemate
             \cup (IF SmallLeaves THEN {} ELSE { Nd(1, 0, 0, 1, <<>>) })                    \* drawn
\* a leaf of the main search still has legal moves (n > 0) that are simply not searched
QuietLeaf(v) == [d |-> 0, c |-> 0, n |-> 1, v |-> v, x |-> 1, mv |-> <<>>, k |-> <<>>, h |-> ""]
Leaves == Terminals \cup { QuietLeaf(v) : v \in Keys }

RECURSIVE AllTrees(_)
AllTrees(d) == IF d = 0 THEN Leaves
               ELSE LET T == AllTrees(d - 1) IN
                    Leaves \cup { Nd(0, 0, v, 1, <<t>>) : t \in T, v \in {0} }
                           \cup { Nd(0, 0, v, 1, <<t1, t2>>) : t1 \in T, t2 \in T, v \in {0} }

RECURSIVE Chain(_, _)
Chain(len, end) == IF len = 0 THEN end ELSE Nd(0, 0, 0, 1, <<Chain(len - 1, end)>>)
Lines == { Chain(len, end) : len \in 0..(MaxLen - 1), end \in Leaves }
Ladders == { Nd(0, 0, 0, 1, <<l1, l2>>) : l1 \in Lines, l2 \in Lines }

Trees == IF Family = "all" THEN AllTrees(TreeDepth) ELSE Ladders
Depths == IF Family = "all" THEN 0..TreeDepth ELSE 0..MaxLen

Bounds == {Lost, Mate(-2), Mate(-3), Mate(-4), H(-1), H(0), H(1), Mate(4), Mate(3), Mate(2), Mate(1), Won}
Windows == { w \in Bounds \X Bounds : Less(w[1], w[2]) }

VARIABLES t
Init == t \in Trees
Next == UNCHANGED t
Spec == Init /\ [][Next]_t

\* C03: the full-window search returns the minimax value
FullWindowExact == \A d \in Depths : AB("static", t, d, Lost, Won) = MM("static", t, d)
\* C13: a narrowed window only clips
WindowClips == \A d \in Depths : \A w \in Windows :
                 Clip(MM("static", t, d), w[1], w[2], AB("static", t, d, w[1], w[2]))
\* a forced mate found at depth d is never reported longer than d plies
MateWithinDepth == \A d \in Depths : LET r == AB("static", t, d, Lost, Won) IN r.t = "M" => MateDistance(r) <= d
=============================================================================
