----------------------------- MODULE TraceBoard -----------------------------
(***************************************************************************)
(* Trace validation for pkg/board and pkg/board/fen: the events recorded   *)
(* from the real code (harness `vh boardtrace`) are replayed against the   *)
(* specifications Chess, Board, Zobrist and Fen.                           *)
(*                                                                         *)
(* The specification state (boards, seen) advances by the specification's  *)
(* OWN actions applied to the logged operation and arguments; what the     *)
(* implementation reported is then compared with what the specification    *)
(* state says it should report.  Every disagreement is printed as          *)
(*     <<"FAIL", line, {assertion names}>>                                 *)
(* and the trace is followed to its end, so that one defect does not hide  *)
(* the rest of the trace (the check driver turns FAIL lines into           *)
(* VIOLATION / KNOWN-FINDING lines).  Props selects which properties'      *)
(* assertions are evaluated.                                               *)
(***************************************************************************)
EXTENDS Zobrist, Fen, Json, IOUtils, TLC

CONSTANT Props

Tr == ndJsonDeserialize(IOEnv.TRACE)

VARIABLES l,        \* next event
          boards,   \* id -> Board value (specification state)
          seen,     \* position identity -> hash token first reported for it
          toks,     \* tokens handed out so far
          nfail     \* number of failing events so far

vars == <<l, boards, seen, toks, nfail>>

NoMv == Mv(-1, -1, 0)
B == INSTANCE Board WITH
       GLegal <- Legal, GApply <- Apply,
       GTurn <- LAMBDA p : p.turn,
       GResets <- IsPawnMoveOrCapture,
       GIsCastle <- IsCastle,
       GInCheck <- LAMBDA p : InCheck(p.b, p.turn),
       GMayKill <- LAMBDA p, m : p.b[m.t+1] # 0 \/ m.p \in {KNIGHT, BISHOP},
       GInsufficient <- LAMBDA p : Insufficient(p.b),
       NoMove <- NoMv, NoProgressLimit <- 100

Want(p) == p \in Props
Chk(name, cond) == IF cond THEN {} ELSE {name}
ToMv(x) == Mv(x[1], x[2], x[3])
SeqToSet(s) == { s[i] : i \in 1..Len(s) }
MvSet(s) == { ToMv(s[i]) : i \in 1..Len(s) }

(* ------------------------ C01: move generation ------------------------- *)
JudgeGen(e) ==
  LET pos == e.pos
      L == Legal(pos)
      okIdx == { i \in 1..Len(e.pseudo) : e.pseudo[i][7] = 1 }
      okSet == { ToMv(e.pseudo[i]) : i \in okIdx }
  IN IF ~WellFormed(pos) THEN {}
     ELSE Chk("c01.legal-set", okSet = L)
          \cup Chk("c01.legal-set-missing", L \subseteq okSet)
          \cup Chk("c01.legal-set-extra", okSet \subseteq L)
          \cup Chk("c01.duplicate", Cardinality(okSet) = Cardinality(okIdx))
          \cup Chk("c01.legalmoves-list", MvSet(e.legal) = L /\ Len(e.legal) = Cardinality(L))
          \cup Chk("c01.kind", \A i \in okIdx : ToMv(e.pseudo[i]) \in L => e.pseudo[i][4] = MoveKind(pos, ToMv(e.pseudo[i])))
          \cup Chk("c01.piece", \A i \in okIdx : ToMv(e.pseudo[i]) \in L => e.pseudo[i][5] = Mover(pos, ToMv(e.pseudo[i])))
          \cup Chk("c01.capture", \A i \in okIdx : ToMv(e.pseudo[i]) \in L =>
                     e.pseudo[i][6] = (IF IsEP(pos, ToMv(e.pseudo[i])) THEN 0 ELSE Captured(pos, ToMv(e.pseudo[i]))))

(* ---------------- C02 / C06 / C14: views of a position ----------------- *)
JudgeViews(e) ==
  LET pos == e.pos  b == pos.b IN
  (IF Want("C02") THEN
        Chk("c02.view-pieces", \A pc \in 1..12 : SeqToSet(e.pieces[pc]) = { s \in Sq : b[s+1] = pc })
   \cup Chk("c02.view-colors", \A c \in 0..1 : SeqToSet(e.colors[c+1]) = { s \in Sq : Color(b[s+1]) = c })
   \cup Chk("c02.view-all", SeqToSet(e.all) = Pieces(b))
   \cup Chk("c02.view-empty", \A s \in Sq : (e.empty[s+1] = 1) = (b[s+1] = 0))
   \cup Chk("c02.view-kingsq", \A c \in 0..1 : HasKing(b, c) /\ Cardinality(KingSquares(b, c)) = 1 => e.ksq[c+1] = KingSq(b, c))
   \cup (IF WellFormed(pos)
         THEN Chk("c02.view-attacked", \A c \in 0..1 : \A s \in Sq : (e.att[c+1][s+1] = 1) = Attacked(b, s, Opp(c)))
         ELSE {})
   ELSE {})
  \cup
  (IF Want("C06") /\ WellFormed(pos) THEN
        Chk("c06.attacked", \A c \in 0..1 : \A s \in Sq : (e.att[c+1][s+1] = 1) = Attacked(b, s, Opp(c)))
   \cup Chk("c06.defended", \A c \in 0..1 : \A s \in Sq : (e.def[c+1][s+1] = 1) = Attacked(b, s, c))
   \cup Chk("c06.check", \A c \in 0..1 : (e.chk[c+1] = 1) = InCheck(b, c))
   \cup Chk("c06.mate", (e.mate = 1) = IsMate(pos))
   ELSE {})
  \cup
  (IF Want("C14") THEN
        Chk("c14.encode", e.fen = Encode(pos, e.np, e.fm))
   \cup Chk("c14.spec-roundtrip", RoundTrip(pos, e.np, e.fm))
   \cup Chk("c14.decode", e.dec.ok /\ e.dec.pos = pos /\ e.dec.np = e.np /\ e.dec.fm = e.fm)
   \cup Chk("c14.reencode", e.dec.ok /\ e.dec.reenc = e.fen)
   ELSE {})
  \cup
  (IF Want("C05") THEN Chk("c05.insufficient", (e.insuf = 1) = Insufficient(b)) ELSE {})

(* --------------- C06: the attack relation, enumerated ------------------ *)
JudgeAttackRow(e) ==
  LET s == e.sq n == Len(e.cases) IN
  \* a full single-line enumeration has 2 * 2^n cases (own square empty / occupied)
  (IF e.line \in 0..3 THEN Chk("c06.enumeration-incomplete", n = 2 * (2 ^ e.n)) ELSE {})
  \cup UNION { LET c == e.cases[i] b == OccBoard(SeqToSet(c.occ)) IN
                   Chk("c06.rook", SeqToSet(c.r) = Attacks(b, s, ROOK) /\ c.ra = c.r)
              \cup Chk("c06.bishop", SeqToSet(c.b) = Attacks(b, s, BISHOP) /\ c.ba = c.b)
              \cup Chk("c06.queen", SeqToSet(c.q) = Attacks(b, s, QUEEN) /\ c.qa = c.q)
            : i \in 1..n }

JudgeAttackTable(e) ==
     Chk("c06.king", SeqToSet(e.king) = KingT[e.sq] /\ e.kinga = e.king)
  \cup Chk("c06.knight", SeqToSet(e.knight) = KnightT[e.sq] /\ e.knighta = e.knight)
  \cup Chk("c06.pawn", SeqToSet(e.wp) = PawnAttTo[0][e.sq] /\ SeqToSet(e.bp) = PawnAttTo[1][e.sq])

JudgePawns(e) ==
  LET P == SeqToSet(e.pawns) occ == SeqToSet(e.all) IN
     Chk("c06.pawn-set", SeqToSet(e.wcap) = UNION { PawnAttTo[0][s] : s \in P } /\ SeqToSet(e.bcap) = UNION { PawnAttTo[1][s] : s \in P })
  \cup Chk("c06.pawn-push", /\ SeqToSet(e.wmove) = { s + 8 : s \in { x \in P : x + 8 \in Sq } } \ occ
                             /\ SeqToSet(e.bmove) = { s - 8 : s \in { x \in P : x - 8 \in Sq } } \ occ)

\* derived queries on a position: who can capture on each square, who is pinned
JudgeDerived(e) ==
  LET pos == e.pos b == pos.b IN
  IF ~WellFormed(pos) THEN {}
  ELSE Chk("c06.capturers", \A c \in 0..1 : \A s \in Sq :
              LET L == e.caps[c+1][s+1] IN
              /\ { x[1] : x \in SeqToSet(L) } = Attackers(b, s, c)
              /\ Len(L) = Cardinality(Attackers(b, s, c))
              /\ \A i \in 1..Len(L) : L[i][2] = b[L[i][1]+1])
    \* attacked / defended by pieces of the given kinds only
    \* attacked / defended by pieces of the given kinds only (the attackers of each square are taken from the
    \* capturer lists of the same event, which the assertion above ties to Chess!Attackers)
    \cup Chk("c06.attacked-by-kinds", \A i \in 1..Len(e.by) :
              LET r == e.by[i] K == SeqToSet(r.kinds)
                  By(c) == { s \in Sq : \E j \in 1..Len(e.caps[c+1][s+1]) : KindOf(e.caps[c+1][s+1][j][2]) \in K }
              IN SeqToSet(r.attacked) = By(Opp(r.side)) /\ SeqToSet(r.defended) = By(r.side))
    \cup Chk("c06.pins", \A i \in 1..Len(e.pins) :
              LET p == e.pins[i] IN
              { <<x[1], x[2], x[3]>> : x \in SeqToSet(p.res) } = Pins(b, p.side, p.kind) /\ Len(p.res) = Cardinality(Pins(b, p.side, p.kind)))

(* --------------------- C02: a single move (tree mode) ------------------ *)
JudgeMove(e) ==
  IF ~WellFormed(e.pre) \/ ToMv(e.m) \notin Legal(e.pre) THEN {}
  ELSE LET x == Apply(e.pre, ToMv(e.m)) IN
         Chk("c02.placement", e.post.b = x.b)
    \cup Chk("c02.rights", e.post.cr = x.cr)
    \cup Chk("c02.ep", e.post.ep = x.ep)

(* --------------------- what a board must report ------------------------ *)
\* which records of the event are judged against the specification boards
Moved(bd, k) == { bd.hist[i].mv.t : i \in { j \in 2..Len(bd.hist) : j > Len(bd.hist) - k } } \cap Pieces(B!Cur(bd).b)
MetaOf(x) == IF x = <<>> THEN NoMv ELSE ToMv(x)
IsDrawn(r) == r.out = 4 /\ r.reason # "Stalemate"

JudgeRec(r, bd, popped) ==
  LET pos == B!Cur(bd) IN
  (IF Want("C02") THEN
        Chk("c02.placement", r.pos.b = pos.b)
   \cup Chk("c02.turn", r.pos.turn = pos.turn)
   \cup Chk("c02.rights", r.pos.cr = pos.cr)
   \cup Chk("c02.ep", r.pos.ep = pos.ep)
   ELSE {})
  \cup
  (IF Want("C05") THEN
        Chk("c05.noprogress", r.np = B!NoProgress(bd))
   \cup (IF bd.res \in {"mate", "stalemate"} THEN {}
         ELSE Chk("c05.draw-missed", (bd.fresh /\ B!DrawNow(bd)) => IsDrawn(r))
              \cup Chk("c05.draw-invented", IsDrawn(r) => B!DrawSomewhere(bd))
              \cup Chk("c05.repetition-name",
                       (bd.fresh /\ IsDrawn(r) /\ B!DrawNow(bd) /\ r.reason \in {"3-Fold Repetition", "5-Fold Repetition"})
                         => (r.reason = "5-Fold Repetition") = (B!Occurrences(bd) >= 5)))
   ELSE {})
  \cup
  (IF Want("C07") THEN Chk("c07.incremental", r.hash = r.scratch)
                       \* the position and its one-component variants (side to move, one castling right, the en
                       \* passant target on every file): different four-field texts, different hashes
                       \cup Chk("c07.component-collision", \A i, j \in 1..Len(r.variants) :
                                  r.variants[i].id # r.variants[j].id => r.variants[i].hash # r.variants[j].hash)
   ELSE {})
  \cup
  (IF Want("C08") THEN
        Chk("c08.position", r.pos = pos)
   \cup Chk("c08.noprogress", r.np = B!NoProgress(bd))
   \cup Chk("c08.ply", r.ply = B!Ply(bd))
   \cup Chk("c08.fullmoves", r.fm = B!FullMoves(bd))
   \cup Chk("c08.castled", \A c \in 0..1 : (r.castled[c+1] = 1) = B!HasCastled(bd, c))
   \cup Chk("c08.lastmove", MetaOf(r.last) = B!LastMove(bd) /\ MetaOf(r.last2) = B!SecondToLastMove(bd))
   \cup Chk("c08.moved", SeqToSet(r.moved1) = Moved(bd, 1) /\ SeqToSet(r.moved2) = Moved(bd, 2) /\ SeqToSet(r.movedAll) = Moved(bd, 100000))
   \* the number of times the board says it has seen its current position (String(); -1 = not reported)
   \cup Chk("c08.repetition-count", r.reps = -1 \/ r.reps = B!Occurrences(bd))
   \cup (IF popped THEN Chk("c08.pop-not-drawn", ~IsDrawn(r)) ELSE {})
   ELSE {})
  \cup
  (IF Want("C14") THEN Chk("c14.board-fen", r.fen = Encode(pos, B!NoProgress(bd), B!FullMoves(bd))) ELSE {})

\* hash tokens: path independence and distinctness (C07)
JudgeTokens(recs) ==
  IF ~Want("C07") THEN {}
  ELSE UNION { LET r == recs[i] id == Identity(r.pos) IN
               IF id \in DOMAIN seen THEN Chk("c07.path-dependent", seen[id] = r.hash)
               ELSE Chk("c07.collision", r.hash \notin toks)
             : i \in 1..Len(recs) }
     \cup Chk("c07.same-event", \A i, j \in 1..Len(recs) : (Identity(recs[i].pos) = Identity(recs[j].pos)) = (recs[i].hash = recs[j].hash))

NewSeen(recs) ==
  LET RECURSIVE Add(_, _)
      Add(i, s) == IF i > Len(recs) THEN s
                   ELSE LET id == Identity(recs[i].pos) IN
                        IF id \in DOMAIN s THEN Add(i+1, s) ELSE Add(i+1, s @@ (id :> recs[i].hash))
  IN Add(1, seen)

JudgeRecs(recs, bs, poppedId) ==
  UNION { JudgeRec(recs[i], bs[recs[i].id], recs[i].id = poppedId) : i \in { j \in 1..Len(recs) : recs[j].id \in DOMAIN bs } }
  \cup Chk("harness.boards", { recs[i].id : i \in 1..Len(recs) } = DOMAIN bs)
  \cup JudgeTokens(recs)

(* ----------------------------- the step -------------------------------- *)
\* next specification state and failed assertions for event e
Step(e) ==
  CASE e.op = "reset" ->
         [bs |-> <<>>, fails |-> {}, recs |-> <<>>, reset |-> TRUE]
    [] e.op = "new" ->
         LET bs == boards @@ (e.id :> B!NewBoard(e.pos, e.np, e.fm)) IN
         [bs |-> bs, recs |-> e.recs, reset |-> FALSE,
          fails |-> JudgeRecs(e.recs, bs, -1)
                    \cup (IF Want("C14") THEN Chk("c14.decode-setup", LET d == Decode(e.fenin) IN d.ok => (d.pos = e.pos /\ d.np = e.np /\ d.fm = e.fm)) ELSE {})]
    [] e.op = "push" ->
         LET bd == boards[e.id]
             m == ToMv(e.m)
             can == B!CanPush(bd, m)
             bs == IF can THEN [boards EXCEPT ![e.id] = B!PushOp(bd, m)] ELSE boards
         IN [bs |-> bs, recs |-> e.recs, reset |-> FALSE,
             fails |-> (IF Want("C01") \/ Want("C02") \/ Want("C19") THEN Chk("c01.push-accepts-iff-legal", e.ok = can) ELSE {})
                       \cup (IF Want("C01") /\ can
                             THEN Chk("c01.push-kind", e.m[4] = MoveKind(B!Cur(bd), m) /\ e.m[5] = Mover(B!Cur(bd), m))
                             ELSE {})
                       \cup (IF Want("C02") /\ "prev" \in DOMAIN e
                             THEN Chk("c02.previous-untouched", e.prev = B!Cur(bd))
                             ELSE {})
                       \cup (IF Want("C07") /\ can
                             THEN Chk("c07.spec-theorem", IncrementalIsScratch(B!Cur(bd), m))
                             ELSE {})
                       \cup JudgeRecs(e.recs, bs, -1)]
    [] e.op = "pop" ->
         LET bd == boards[e.id]
             can == B!CanPop(bd)
             bs == IF can THEN [boards EXCEPT ![e.id] = B!PopOp(bd)] ELSE boards
             wasDrawn == LET p == B!PopOp(bd) IN can /\ B!DrawSomewhere(p)
         IN [bs |-> bs, recs |-> e.recs, reset |-> FALSE,
             fails |-> (IF Want("C08") THEN Chk("c08.pop-ok", e.ok = can) \cup (IF can THEN Chk("c08.pop-move", ToMv(e.m) = B!LastMove(bd)) ELSE {}) ELSE {})
                       \* after a take-back the board reports a not-drawn result - also when the position taken
                       \* back to was itself declared drawn when it was reached (the statement says so, and so
                       \* does the code: the result is sticky on the way down and reset on the way back)
                       \cup JudgeRecs(e.recs, bs, IF can THEN e.id ELSE -1)]
    [] e.op = "fork" ->
         LET bs == boards @@ (e.new :> B!ForkOp(boards[e.id])) IN
         [bs |-> bs, recs |-> e.recs, reset |-> FALSE, fails |-> JudgeRecs(e.recs, bs, -1)]
    [] e.op = "adj" ->
         LET bd == boards[e.id]
             bs == [boards EXCEPT ![e.id] = B!AdjudicateOp(bd)]
         IN [bs |-> bs, recs |-> e.recs, reset |-> FALSE,
             fails |-> (IF Want("C05")
                        THEN Chk("harness.adjudicate-precondition", B!CanAdjudicate(bd))
                             \cup Chk("c05.adjudicate", IF InCheck(B!Cur(bd).b, B!Cur(bd).turn)
                                                        THEN e.reason = "Checkmate" /\ e.out = (IF B!Cur(bd).turn = 0 THEN 3 ELSE 2)
                                                        ELSE e.reason = "Stalemate" /\ e.out = 4)
                        ELSE {})
                       \cup JudgeRecs(e.recs, bs, -1)]
    [] e.op = "gen" ->
         [bs |-> boards, recs |-> <<>>, reset |-> FALSE, fails |-> IF Want("C01") THEN JudgeGen(e) ELSE {}]
    [] e.op = "views" ->
         [bs |-> boards, recs |-> <<>>, reset |-> FALSE, fails |-> JudgeViews(e)]
    [] e.op = "attackrow" ->
         [bs |-> boards, recs |-> <<>>, reset |-> FALSE, fails |-> JudgeAttackRow(e)]
    [] e.op = "attacktable" ->
         [bs |-> boards, recs |-> <<>>, reset |-> FALSE, fails |-> JudgeAttackTable(e)]
    [] e.op = "pawns" ->
         [bs |-> boards, recs |-> <<>>, reset |-> FALSE, fails |-> JudgePawns(e)]
    [] e.op = "derived" ->
         [bs |-> boards, recs |-> <<>>, reset |-> FALSE, fails |-> IF Want("C06") THEN JudgeDerived(e) ELSE {}]
    [] e.op = "move" ->
         [bs |-> boards, recs |-> <<>>, reset |-> FALSE, fails |-> IF Want("C02") THEN JudgeMove(e) ELSE {}]

Init == l = 1 /\ boards = <<>> /\ seen = <<>> /\ toks = {} /\ nfail = 0

Next ==
  /\ l <= Len(Tr)
  /\ LET e == Tr[l]
         s == Step(e)
     IN /\ (s.fails # {} => PrintT("FAIL|" \o ToString(l) \o "|" \o ToString(s.fails)))
        /\ boards' = s.bs
        /\ seen' = IF s.reset THEN <<>> ELSE IF Want("C07") THEN NewSeen(s.recs) ELSE seen
        /\ toks' = IF s.reset THEN {} ELSE IF Want("C07") THEN toks \cup { s.recs[i].hash : i \in 1..Len(s.recs) } ELSE toks
        /\ nfail' = nfail + (IF s.fails # {} THEN 1 ELSE 0)
  /\ l' = l + 1

Spec == Init /\ [][Next]_vars

\* the whole trace was consumed (one state per event plus the initial state)
Accepted == TLCGet("stats").diameter - 1 = Len(Tr)
=============================================================================
