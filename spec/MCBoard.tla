------------------------------ MODULE MCBoard ------------------------------
(***************************************************************************)
(* Board.tla model-checked over a small abstract game: every programme of  *)
(* at most MaxOps operations (push / take-back / fork / adjudicate) over   *)
(* NBoards boards.  The abstract game has reversible moves forming cycles  *)
(* (so positions repeat), an irreversible "capture" leading to dead        *)
(* material, a "castling" move, and a terminal position with no moves.     *)
(***************************************************************************)
EXTENDS Integers, Sequences, FiniteSets

CONSTANTS MaxOps, NBoards

\* position = <<place, turn, rights>>; places 0..2 cycle, 3 = dead material, 4 = no moves
APos(place, turn, rights) == <<place, turn, rights>>
ALegal(p) == CASE p[1] \in 0..2 -> {"a", "b", "x"} \cup (IF p[3] THEN {"c"} ELSE {}) \cup (IF p[1] = 2 THEN {"m"} ELSE {})
               [] p[1] = 3 -> {"s"}
               [] OTHER -> {}
AApply(p, m) == CASE m = "a" -> APos((p[1] + 1) % 3, 1 - p[2], p[3])
                  [] m = "b" -> APos((p[1] + 2) % 3, 1 - p[2], p[3])
                  [] m = "x" -> APos(3, 1 - p[2], FALSE)
                  [] m = "c" -> APos(p[1], 1 - p[2], FALSE)
                  [] m = "m" -> APos(4, 1 - p[2], p[3])
                  [] m = "s" -> APos(3, 1 - p[2], p[3])

B == INSTANCE Board WITH
       GLegal <- ALegal, GApply <- AApply,
       GTurn <- LAMBDA p : p[2],
       GResets <- LAMBDA p, m : m = "x",
       GIsCastle <- LAMBDA p, m : m = "c",
       GInCheck <- LAMBDA p : p[2] = 0,
       GMayKill <- LAMBDA p, m : m = "x",
       GInsufficient <- LAMBDA p : p[1] = 3,
       NoMove <- "none", NoProgressLimit <- 3

VARIABLES bd, live, parent, floor, ops
vars == <<bd, live, parent, floor, ops>>

Ids == 1..NBoards
Start == APos(0, 0, TRUE)

Init == /\ \E np \in {0, 2} : bd = [i \in Ids |-> B!NewBoard(Start, np, 1)]
        /\ live = [i \in Ids |-> i = 1]
        /\ parent = [i \in Ids |-> 0]
        /\ floor = [i \in Ids |-> 1]
        /\ ops = 0

Push(i, m) == /\ live[i] /\ B!CanPush(bd[i], m)
              /\ bd' = [bd EXCEPT ![i] = B!PushOp(@, m)]
              /\ UNCHANGED <<live, parent, floor>>
Pop(i) == /\ live[i] /\ B!CanPop(bd[i]) /\ B!Ply(bd[i]) > floor[i]
          /\ bd' = [bd EXCEPT ![i] = B!PopOp(@)]
          /\ UNCHANGED <<live, parent, floor>>
Fork(i, j) == /\ live[i] /\ ~live[j]
              /\ bd' = [bd EXCEPT ![j] = B!ForkOp(bd[i])]
              /\ live' = [live EXCEPT ![j] = TRUE]
              /\ parent' = [parent EXCEPT ![j] = i]
              /\ floor' = [floor EXCEPT ![j] = B!Ply(bd[i]), ![i] = IF @ < B!Ply(bd[i]) THEN B!Ply(bd[i]) ELSE @]
Adjudicate(i) == /\ live[i] /\ B!CanAdjudicate(bd[i])
                 /\ bd' = [bd EXCEPT ![i] = B!AdjudicateOp(@)]
                 /\ UNCHANGED <<live, parent, floor>>

Next == /\ ops < MaxOps /\ ops' = ops + 1
        /\ \E i \in Ids : \/ \E m \in {"a", "b", "x", "c", "m", "s"} : Push(i, m)
                          \/ Pop(i) \/ Adjudicate(i)
                          \/ \E j \in Ids : Fork(i, j)
Spec == Init /\ [][Next]_vars

TypeOK == \A i \in Ids : live[i] => Len(bd[i].hist) >= 1 /\ bd[i].base <= Len(bd[i].hist) /\ floor[i] <= B!Ply(bd[i])

\* a take-back undoes a push exactly (everything a board reports except the result)
PopRestores == \A i \in Ids : live[i] =>
                 \A m \in ALegal(B!Cur(bd[i])) : B!CanPush(bd[i], m) =>
                    /\ B!Obs(B!PopOp(B!PushOp(bd[i], m))) = B!Obs(bd[i])
                    /\ B!PopOp(B!PushOp(bd[i], m)).res = "open"

\* drawn only if a drawn position lies on the current line; drawn at once when a move reaches one
DrawIffSomewhere == \A i \in Ids : live[i] =>
                      /\ bd[i].res = "draw" => B!DrawSomewhere(bd[i])
                      /\ (bd[i].fresh /\ B!DrawNow(bd[i])) => bd[i].res = "draw"

\* a fork shares its parent's past up to the fork point (repetitions are counted against it)
ForkSharesPast == \A j \in Ids : (live[j] /\ parent[j] # 0) =>
                    SubSeq(bd[j].hist, 1, bd[j].base) = SubSeq(bd[parent[j]].hist, 1, bd[j].base)

\* an operation on one board never changes what another board reports
ForkIsolated == [][\A i \in Ids : (live[i] /\ bd'[i] # bd[i]) => \A j \in Ids \ {i} : live[j] => bd'[j] = bd[j]]_vars
=============================================================================
