------------------------------ MODULE TraceIter ------------------------------
(***************************************************************************)
(* Trace validation for iterative deepening (C15).                         *)
(*  iterrun   a real analysis: the depths it published (from the hooks),   *)
(*            the PVs a draining consumer received, the PV Halt returned,  *)
(*            and the result of a direct fixed-depth search for each depth *)
(*  iterhalt  hook-recorded events of an analysis over a gated stub search *)
(*            with concurrent Halt callers under perturbed schedules       *)
(*  limits    TimeControl.Limits on a grid                                 *)
(***************************************************************************)
EXTENDS TimeControl, Score, Sequences, FiniteSets, Json, IOUtils, TLC

CONSTANT Props
Tr == ndJsonDeserialize(IOEnv.TRACE)
VARIABLES l
Chk(name, cond) == IF cond THEN {} ELSE {name}
Norm(x) == [t |-> x.t, m |-> x.m, v |-> x.v]

MateWithin(d, sc) == MateDistance(Norm(sc)) # -1 /\ MateDistance(Norm(sc)) <= d

JudgeRun(e) ==
  LET n == Len(e.published)
      D == e.direct
      firstMate == { d \in 1..Len(D) : MateWithin(d, D[d].score) }
      stopAt == IF firstMate = {} THEN (IF e.limit = 0 THEN 0 ELSE e.limit)
                ELSE LET fm == CHOOSE d \in firstMate : \A x \in firstMate : d <= x IN
                     IF e.limit = 0 \/ fm <= e.limit THEN fm ELSE e.limit
  IN   Chk("c15.order", \A i \in 1..n : e.published[i] = i)
  \cup Chk("c15.received-order", \A i \in 1..Len(e.received) : \A j \in 1..Len(e.received) : i < j => e.received[i].depth < e.received[j].depth)
  \cup Chk("c15.score", \A i \in 1..Len(e.received) : LET r == e.received[i] IN r.depth \in 1..Len(D) /\ Norm(r.score) = Norm(D[r.depth].score))
  \cup (IF e.tt THEN {} ELSE Chk("c15.pv", \A i \in 1..Len(e.received) : LET r == e.received[i] IN r.depth \in 1..Len(D) /\ r.pv = D[r.depth].pv))
  \* it ends by itself exactly at the limit or at the first forced mate within the depth
  \cup (IF ~e.halted THEN Chk("c15.stop", stopAt # 0 /\ n = stopAt) ELSE {})
  \cup Chk("c15.past-stop", stopAt # 0 => n <= stopAt)
  \cup Chk("c15.last-received", n > 0 => (Len(e.received) > 0 /\ (e.halted \/ e.received[Len(e.received)].depth = n)))
  \cup (IF e.halted /\ e.halt.depth # -1
        THEN Chk("c15.halt-depth1", e.halt.depth >= 1)
             \cup Chk("c15.halt-completed", e.halt.depth \in 1..Len(D) /\ Norm(e.halt.score) = Norm(D[e.halt.depth].score)
                                            /\ (e.tt \/ e.halt.pv = D[e.halt.depth].pv))
        ELSE {})

\* events of a gated analysis: published depths, stored depths, halt calls and returns
JudgeHalt(e) ==
  LET E == e.events
      idx(nm) == { i \in 1..Len(E) : E[i].name = nm }
      pubBefore(i) == { E[j].args[1] : j \in { x \in idx("iter.published") : x < i } }
      \* what a consumer of the PV channel had already received (the hook of a published depth is recorded
      \* when its goroutine passes the point, which a hold rule can delay; the consumer's receipt is direct)
      recvBefore(i) == { E[j].args[1] : j \in { x \in idx("consumer.received") : x < i } }
      storedBefore(i) == { E[j].args[1] : j \in { x \in idx("iter.stored") : x < i } }
      calls == idx("halt.call")
      rets == idx("halt.return")
      callOf(r) == CHOOSE c \in calls : E[c].args[1] = E[r].args[1]
      pubs == [i \in 1..Cardinality(idx("iter.published")) |-> E[CHOOSE j \in idx("iter.published") : Cardinality({ x \in idx("iter.published") : x <= j }) = i].args[1]]
  IN   Chk("c15.order", \A i \in 1..Len(pubs) : pubs[i] = i)
  \* a Halt that has not returned 30 s after everything it could wait for was released
  \cup Chk("c15.halt-never-returns", idx("halt.stuck") = {} /\ Cardinality(rets) = Cardinality(calls))
  \cup Chk("c15.halted-search-keeps-running", idx("iter.no-exit") = {})
  \cup Chk("c15.halt-depth1", \A r \in rets : E[r].args[2] >= 1)
  \cup Chk("c15.halt-at-least-reported", \A r \in rets : \A d \in pubBefore(callOf(r)) \cup recvBefore(callOf(r)) : E[r].args[2] >= d)
  \cup Chk("c15.halt-completed", \A r \in rets : E[r].args[2] \in storedBefore(r))
  \cup Chk("c15.past-stop", \A i \in 1..Len(pubs) : (e.limit # 0 => pubs[i] <= e.limit) /\ (e.mate # 0 => pubs[i] <= e.mate))

JudgeLimits(e) ==
  IF ~e.exact THEN {}
  ELSE Chk("c15.limits-soft", e.soft = Soft(e.rem, e.moves))
  \cup Chk("c15.limits-hard", e.hard = Hard(e.rem, e.moves))
  \cup Chk("c15.hard-exceeds-clock", e.hard <= e.rem)

Init == l = 1
Next == /\ l <= Len(Tr)
        /\ LET e == Tr[l]
               f == CASE e.op = "iterrun" -> JudgeRun(e)
                      [] e.op = "iterhalt" -> JudgeHalt(e)
                      [] e.op = "limits" -> JudgeLimits(e)
                      [] OTHER -> {}
           IN f # {} => PrintT("FAIL|" \o ToString(l) \o "|" \o ToString(f))
        /\ l' = l + 1
Spec == Init /\ [][Next]_l
Accepted == TLCGet("stats").diameter - 1 = Len(Tr)
=============================================================================
