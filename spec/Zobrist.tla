------------------------------ MODULE Zobrist ------------------------------
(***************************************************************************)
(* Position hashing as the symmetric difference of named keys (C07).       *)
(* A hash is the SET of key names whose random words are XOR-ed together;  *)
(* XOR of words = symmetric difference of name sets (for independent       *)
(* random words two hashes are equal iff the name sets are, barring a      *)
(* 2^-64 coincidence).                                                     *)
(*                                                                         *)
(* ZHash  : from scratch.                                                  *)
(* ZMove  : the incremental update, written branch for branch like the     *)
(*          implementation's table update (undo the status keys, move the  *)
(*          piece by kind of move, add the new status keys).               *)
(* Theorem checked by TLC on every (position, move) it meets:              *)
(*          ZMove(ZHash(pos), pos, m) = ZHash(Apply(pos, m)).              *)
(***************************************************************************)
EXTENDS Chess

Xor(A, B) == (A \ B) \cup (B \ A)

PcKey(c, k, s) == <<"pc", c, k, s>>
CrKey(cr)      == <<"cr", cr>>
EpKey(s)       == <<"ep", s>>
TurnKey(c)     == <<"turn", c>>

ZHash(pos) ==
  { PcKey(Color(pos.b[s+1]), KindOf(pos.b[s+1]), s) : s \in Pieces(pos.b) }
  \cup { CrKey(pos.cr) }
  \cup (IF pos.ep # -1 THEN { EpKey(pos.ep) } ELSE {})
  \cup { TurnKey(pos.turn) }

ZMove(h, pos, m) ==
  LET c    == pos.turn
      k    == Mover(pos, m)
      kind == MoveKind(pos, m)
      cap  == Captured(pos, m)
      \* (1) undo the status keys
      h1 == Xor(Xor(Xor(h, {CrKey(pos.cr)}), IF pos.ep # -1 THEN {EpKey(pos.ep)} ELSE {}), {TurnKey(c)})
      \* (2) the moving piece leaves its square
      h2 == Xor(h1, {PcKey(c, k, m.f)})
      \* (3) by kind of move
      h3 == CASE kind = KCapture ->
                   Xor(Xor(h2, {PcKey(Opp(c), cap, m.t)}), {PcKey(c, k, m.t)})
              [] kind = KPromotion ->
                   Xor(h2, {PcKey(c, m.p, m.t)})
              [] kind = KCapturePromotion ->
                   Xor(Xor(h2, {PcKey(Opp(c), cap, m.t)}), {PcKey(c, m.p, m.t)})
              [] kind = KEnPassant ->
                   Xor(Xor(h2, {PcKey(c, k, m.t)}), {PcKey(Opp(c), PAWN, At(File(m.t), Rank(m.f)))})
              [] kind \in {KKingSideCastle, KQueenSideCastle} ->
                   LET rf == IF m.t > m.f THEN m.f + 3 ELSE m.f - 4
                       rt == IF m.t > m.f THEN m.f + 1 ELSE m.f - 1
                   IN Xor(Xor(Xor(h2, {PcKey(c, k, m.t)}), {PcKey(c, ROOK, rf)}), {PcKey(c, ROOK, rt)})
              [] OTHER ->
                   Xor(h2, {PcKey(c, k, m.t)})
      \* (4) the new status keys
      cr2 == Strip(Strip(pos.cr, RightsLost(m.f)), RightsLost(m.t))
      ep2 == IF IsDouble(pos, m) THEN (m.f + m.t) \div 2 ELSE -1
  IN Xor(Xor(Xor(h3, {CrKey(cr2)}), IF ep2 # -1 THEN {EpKey(ep2)} ELSE {}), {TurnKey(Opp(c))})

IncrementalIsScratch(pos, m) == ZMove(ZHash(pos), pos, m) = ZHash(Apply(pos, m))

\* the identity a hash stands for
Identity(pos) == [b |-> pos.b, turn |-> pos.turn, cr |-> pos.cr, ep |-> pos.ep]
=============================================================================
