------------------------------ MODULE TraceDet -------------------------------
(***************************************************************************)
(* Trace validation for determinism (C18): what an analysis returns is a   *)
(* FUNCTION of (engine configuration, game, depth, noise seed).  The trace *)
(* specification keeps the map key -> first result and requires every      *)
(* later run with the same key -- repeated, after unrelated searches, on a *)
(* new engine, with another hash seed, concurrently with other engines --  *)
(* to reproduce score, principal variation and node count; and the         *)
(* engine's own game state before and after each analysis to be equal.     *)
(***************************************************************************)
EXTENDS Integers, Sequences, FiniteSets, Json, IOUtils, TLC

CONSTANT Props
Tr == ndJsonDeserialize(IOEnv.TRACE)
VARIABLES l, res
Chk(name, cond) == IF cond THEN {} ELSE {name}

Judge(e) ==
     Chk("harness.incomplete", e.complete)
  \cup Chk("c18.game-touched", e.state0 = e.state1)
  \cup (IF e.key \in DOMAIN res
        THEN Chk("c18.score-differs", res[e.key].score = e.res.score)
             \cup Chk("c18.pv-differs", res[e.key].pv = e.res.pv)
             \cup Chk("c18.nodes-differ", res[e.key].nodes = e.res.nodes)
        ELSE {})

Init == l = 1 /\ res = <<>>
Next == /\ l <= Len(Tr)
        /\ LET e == Tr[l] f == Judge(e) IN
             /\ (f # {} => PrintT("FAIL|" \o ToString(l) \o "|" \o ToString(f \cup {e.how})))
             /\ res' = IF e.key \in DOMAIN res THEN res ELSE res @@ (e.key :> e.res)
        /\ l' = l + 1
Spec == Init /\ [][Next]_<<l, res>>
Accepted == TLCGet("stats").diameter - 1 = Len(Tr)
=============================================================================
