----------------------------- MODULE TraceScore -----------------------------
(***************************************************************************)
(* Trace validation for pkg/eval Score (C09): each event is one score `a`  *)
(* with the implementation's Negate / IncrementMateDistance / MateDistance *)
(* of it and its Less / Max / Min against every score of the domain.  The  *)
(* implementation must agree pointwise with Score.tla, whose operators TLC *)
(* has shown (MCScore) to form a strict total order with the laws of C09.  *)
(***************************************************************************)
EXTENDS Score, Sequences, FiniteSets, Json, IOUtils, TLC

CONSTANT Props
Tr == ndJsonDeserialize(IOEnv.TRACE)
VARIABLES l
Chk(name, cond) == IF cond THEN {} ELSE {name}
Norm(x) == [t |-> x.t, m |-> x.m, v |-> x.v]

Judge(e) ==
  LET a == Norm(e.a) n == Len(e.bs) IN
       \* the constructors make what they are asked for (an infinite evaluation is still a heuristic value)
       Chk("c09.constructed-score", a = Norm(e.want) /\ (e.heur = 1) = (e.want.t = "H"))
  \cup Chk("c09.negate", Norm(e.neg) = Neg(a))
  \cup (IF e.incdom = 1 THEN Chk("c09.increment", Norm(e.inc) = Inc(a)) ELSE {})
  \cup Chk("c09.matedistance", e.md = MateDistance(a))
  \* taking the ply away again (DecrementMateDistance, the inverse used to shift search windows)
  \cup Chk("c09.decrement", Norm(e.dec) = Dec(a))
  \cup (IF e.incdom = 1 THEN Chk("c09.increment-then-decrement", Norm(e.incdec) = a) ELSE {})
  \cup Chk("c09.less", \A i \in 1..n : (e.less[i] = 1) = Less(a, Norm(e.bs[i])))
  \cup Chk("c09.greater", \A i \in 1..n : (e.greater[i] = 1) = Less(Norm(e.bs[i]), a))
  \cup Chk("c09.max", \A i \in 1..n : Norm(e.max[i]) = Max(a, Norm(e.bs[i])))
  \cup Chk("c09.min", \A i \in 1..n : Norm(e.min[i]) = Min(a, Norm(e.bs[i])))
  \cup Chk("c09.negate-reverses", \A i \in 1..n : (e.less[i] = 1) = (e.negless[i] = 1))
  \cup (IF e.incdom = 1 THEN Chk("c09.increment-monotone", \A i \in 1..n : e.incdomb[i] = 1 => (e.less[i] = 1) = (e.incless[i] = 1)) ELSE {})

Init == l = 1
Next == /\ l <= Len(Tr)
        /\ LET f == Judge(Tr[l]) IN f # {} => PrintT("FAIL|" \o ToString(l) \o "|" \o ToString(f))
        /\ l' = l + 1
Spec == Init /\ [][Next]_l
Accepted == TLCGet("stats").diameter - 1 = Len(Tr)
=============================================================================
