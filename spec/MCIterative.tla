----------------------------- MODULE MCIterative -----------------------------
(* Iterative.tla with the time-control lemma evaluated on a grid by TLC. *)
EXTENDS Iterative, TLC
CONSTANT Grid
ASSUME \A r \in 0..Grid : \A m \in -1..60 : HardWithinClock(r, m)
ASSUME \A r \in 0..Grid : \A m \in -1..60 : Soft(r, m) >= 0 /\ Soft(r, m) <= Hard(r, m)
=============================================================================
