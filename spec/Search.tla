------------------------------- MODULE Search -------------------------------
(***************************************************************************)
(* Reference semantics of game-tree search (C03 C11 C12 C13 C15 C18):      *)
(* what the value of a position at a depth IS, independent of how any      *)
(* algorithm computes it.  Trees are nested records (this is the format of *)
(* the dumps the harness makes through the public board API, and of the    *)
(* abstract trees of MCSearch):                                            *)
(*                                                                         *)
(*   d  1 if the game is drawn at this node (repetition / fifty-move /     *)
(*      dead material, as reported by the board after the move), else 0    *)
(*   c  1 if the side to move is in check                                  *)
(*   n  number of legal moves                                              *)
(*   v  static evaluation key (Score.tla), side to move's point of view    *)
(*   x  1 if the move leading here is explored by the search's selection   *)
(*   mv the move leading here (<<from, to, promo>>)                        *)
(*   k  children, in generation order (main search: all legal moves;       *)
(*      quiescence part: the explored ones)                                *)
(*                                                                         *)
(* cfg selects the leaf evaluation:                                        *)
(*   "static"  the static evaluation                                       *)
(*   "qs"      quiescence: max(stand pat, explored replies), recursively   *)
(*   "sargon"  static, but one full-width ply deeper when in check         *)
(***************************************************************************)
EXTENDS Score, Sequences, FiniteSets

NoLegalMove(n) == IF n.c = 1 THEN Lost ELSE H(0)
Up(s) == Neg(Inc(s))   \* a child's value seen from the parent

RECURSIVE MM(_, _, _), QMM(_), MaxKids(_, _, _, _, _), QMaxKids(_, _, _)

\* quiescence value
QMM(n) == IF n.d = 1 THEN H(0)
          ELSE IF n.n = 0 THEN NoLegalMove(n)
          ELSE QMaxKids(n.k, 1, H(n.v))
QMaxKids(ks, i, acc) == IF i > Len(ks) THEN acc
                        ELSE QMaxKids(ks, i+1, IF ks[i].x = 1 THEN Max(acc, Up(QMM(ks[i]))) ELSE acc)

\* one full-width ply with static leaves (SARGON's check extension)
OnePly(n) == IF n.n = 0 THEN NoLegalMove(n)
             ELSE LET RECURSIVE F(_, _)
                      F(i, acc) == IF i > Len(n.k) THEN acc
                                   ELSE F(i+1, Max(acc, Up(IF n.k[i].d = 1 THEN H(0) ELSE H(n.k[i].v))))
                  IN F(1, Lost)

LeafValue(cfg, n) == CASE cfg = "static" -> H(n.v)
                       [] cfg = "qs"     -> QMM(n)
                       [] cfg = "sargon" -> IF n.c = 1 THEN OnePly(n) ELSE H(n.v)

\* exhaustive negamax over the explored moves to depth d
MM(cfg, n, d) == IF n.d = 1 THEN H(0)
                 ELSE IF d = 0 THEN LeafValue(cfg, n)
                 ELSE IF n.n = 0 THEN NoLegalMove(n)
                 ELSE MaxKids(cfg, n.k, d - 1, 1, Lost)
MaxKids(cfg, ks, d, i, acc) == IF i > Len(ks) THEN acc
                               ELSE MaxKids(cfg, ks, d, i+1, IF ks[i].x = 1 THEN Max(acc, Up(MM(cfg, ks[i], d))) ELSE acc)

HasExplored(n) == \E i \in 1..Len(n.k) : n.k[i].x = 1

(* A narrowed window (a, b) only clips: r is consistent with the true v.   *)
Clip(v, a, b, r) ==
  /\ (Less(a, v) /\ Less(v, b)) => r = v
  /\ ~Less(a, v) => (~Less(r, v) /\ ~Less(a, r))     \* v <= a : v <= r <= a
  /\ ~Less(v, b) => (~Less(r, b) /\ ~Less(v, r))     \* v >= b : b <= r <= v

(* Principal variation: a line of explored legal moves from the root, no   *)
(* longer than the depth, whose first move attains the root value.         *)
KidByMove(n, mv) == { i \in 1..Len(n.k) : n.k[i].mv = mv }
RECURSIVE LegalLine(_, _, _)
LegalLine(n, pv, i) == IF i > Len(pv) THEN TRUE
                       ELSE LET S == KidByMove(n, pv[i]) IN
                            S # {} /\ LegalLine(n.k[CHOOSE j \in S : TRUE], pv, i+1)
SoundPV(cfg, n, d, pv) ==
  \* a root at which a draw can already be claimed is worth 0 whatever is played: any legal
  \* move (or none) is a sound variation
  IF n.d = 1 THEN pv = <<>> \/ (Len(pv) = 1 /\ d >= 1 /\ KidByMove(n, pv[1]) # {})
  ELSE IF n.n = 0 \/ d = 0 \/ ~HasExplored(n) THEN pv = <<>>
  ELSE /\ Len(pv) >= 1 /\ Len(pv) <= d
       /\ LegalLine(n, pv, 1)
       /\ LET S == KidByMove(n, pv[1]) IN
            S # {} /\ LET kid == n.k[CHOOSE j \in S : TRUE] IN
                      kid.x = 1 /\ Up(MM(cfg, kid, d - 1)) = MM(cfg, n, d)

\* the node reached from n by a path of 1-based child indices
RECURSIVE NodeAt(_, _, _)
NodeAt(n, path, i) == IF i > Len(path) THEN n ELSE NodeAt(n.k[path[i]], path, i+1)
=============================================================================
