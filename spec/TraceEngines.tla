---------------------------- MODULE TraceEngines ----------------------------
(***************************************************************************)
(* Trace validation for the historical engines (C20): evaluations, move    *)
(* filters and opening books, judged against Chess.tla.                    *)
(*   engines  facts about a position `a' and about its colour mirror `b'   *)
(*            (reached by the mirrored game, so histories mirror too)      *)
(*   book     an opening-book answer for a position                        *)
(***************************************************************************)
EXTENDS Fen, Json, IOUtils, TLC

CONSTANT Props
Tr == ndJsonDeserialize(IOEnv.TRACE)
VARIABLES l
Chk(name, cond) == IF cond THEN {} ELSE {name}
ToMv(x) == Mv(x[1], x[2], x[3])
MvSet(s) == { ToMv(s[i]) : i \in 1..Len(s) }
NoDup(s) == Cardinality(MvSet(s)) = Len(s)

EvalNames == {"material", "turochamp", "turomat", "bernstein1", "bernstein8", "bernstein100", "sargon"}
ColourBlind == {"material", "turochamp", "turomat", "bernstein1", "bernstein8", "bernstein100"}

JudgeSide(x, tag) ==
  LET pos == x.pos L == Legal(pos) IN
  IF ~WellFormed(pos) THEN {}
  ELSE IF x.panic # "" THEN {"c20.panics-" \o x.panic \o tag}   \* the evaluations and filters are total
  ELSE Chk("c20.eval-not-finite" \o tag, \A nm \in EvalNames : x.eval[nm][2] = 1)
  \cup Chk("c20.plausible-not-legal" \o tag, MvSet(x.plausible) \subseteq L /\ NoDup(x.plausible))
  \cup Chk("c20.plausible-selection" \o tag,
           /\ MvSet(x.sel.plausible0) \subseteq L /\ MvSet(x.sel.plausible1) \subseteq L /\ MvSet(x.sel.plausible7) \subseteq L
           /\ NoDup(x.sel.plausible0) /\ NoDup(x.sel.plausible1) /\ NoDup(x.sel.plausible7)
           /\ MvSet(x.sel.plausible0) = MvSet(x.plausible))
  \cup Chk("c20.plausible-limit" \o tag, Len(x.sel.plausible1) <= 1 /\ Len(x.sel.plausible7) <= 7)
  \cup Chk("c20.plausible-starves" \o tag, L # {} => (x.sel.plausible0 # <<>> /\ x.sel.plausible1 # <<>> /\ x.sel.plausible7 # <<>>))
  \cup Chk("c20.skipunder-selection" \o tag, MvSet(x.sel.skipunder) \subseteq L /\ NoDup(x.sel.skipunder)
                                            /\ MvSet(x.sel.skipunder) = { m \in L : m.p \in {0, QUEEN} })
  \cup Chk("c20.skipunder-starves" \o tag, L # {} => x.sel.skipunder # <<>>)
  \cup Chk("c20.considerable-selection" \o tag, MvSet(x.sel.considerable) \subseteq L /\ NoDup(x.sel.considerable))
  \cup Chk("harness.legal-count" \o tag, x.nlegal = Cardinality(L))

JudgeEngines(e) ==
  JudgeSide(e.a, "")
  \cup JudgeSide(e.b, "-mirror")
  \cup Chk("harness.mirror", e.b.pos = Mirror(e.a.pos))
  \cup (IF WellFormed(e.a.pos) /\ e.a.panic = "" /\ e.b.panic = ""
        THEN Chk("c20.not-colour-blind", \A nm \in ColourBlind : e.a.eval[nm] = e.b.eval[nm])
             \cup Chk("c20.filters-not-colour-blind",
                      /\ MvSet(e.b.sel.plausible0) = { MirrorMv(m) : m \in MvSet(e.a.sel.plausible0) }
                      /\ MvSet(e.b.sel.considerable) = { MirrorMv(m) : m \in MvSet(e.a.sel.considerable) })
        ELSE {})

JudgeBook(e) ==
  LET d == Decode(e.key) IN
     Chk("harness.book-key", d.ok /\ d.pos = e.pos)
  \cup Chk("c20.book-move-not-legal", MvSet(e.moves) \subseteq Legal(e.pos) /\ e.moves # <<>>)

Init == l = 1
Next == /\ l <= Len(Tr)
        /\ LET e == Tr[l]
               f == CASE e.op = "engines" -> JudgeEngines(e)
                      [] e.op = "book" -> JudgeBook(e)
                      [] e.op = "mirror-diverged" -> {"harness.mirror-diverged"}
                      [] OTHER -> {}
           IN f # {} => PrintT("FAIL|" \o ToString(l) \o "|" \o ToString(f))
        /\ l' = l + 1
Spec == Init /\ [][Next]_l
Accepted == TLCGet("stats").diameter - 1 = Len(Tr)
=============================================================================
