--------------------------------- MODULE TT ---------------------------------
(***************************************************************************)
(* The concurrent transposition table (C17), at the grain of the code:     *)
(*                                                                         *)
(*   Write(h, v) = allocate an immutable node; Load the slot; loop:        *)
(*                 if val(old) > val(new) return false;                    *)
(*                 CAS(slot, old, new): on success, if old was nil bump    *)
(*                 the fill counter, return true; on failure re-Load.      *)
(*   Read(h)     = one atomic Load of the slot + full-hash comparison.     *)
(*                                                                         *)
(* Nodes are immutable records published by pointer swap, so a reader sees *)
(* one Write's tuple or nothing (the conformance harness checks that the   *)
(* code really does it this way: tagged payloads, race detector).          *)
(* The fill counter is modelled at two grains:                             *)
(*   AtomicUsed = TRUE   one atomic add                                    *)
(*   AtomicUsed = FALSE  read, then write (a plain ++ in the code)         *)
(***************************************************************************)
EXTENDS Integers, FiniteSets, Sequences

CONSTANTS Procs, NSlots, Hashes, Vals, WritesPerProc, AtomicUsed

Slots == 0..(NSlots - 1)
SlotOf(h) == h % NSlots
NIL == [h |-> -1, v |-> 0, tag |-> <<>>]
ValOf(n) == n.v

VARIABLES slot,     \* slot -> node (NIL if empty)
          used,     \* the fill counter
          pc,       \* per process program counter
          cur,      \* per process: the node being written
          old,      \* per process: the node last loaded
          done,     \* per process: number of completed writes
          tmp,      \* per process: the counter value read (non-atomic increment)
          replaced  \* history: pairs <<val(old), val(new)>> of successful swaps

vars == <<slot, used, pc, cur, old, done, tmp, replaced>>

Init == /\ slot = [s \in Slots |-> NIL]
        /\ used = 0
        /\ pc = [p \in Procs |-> "idle"]
        /\ cur = [p \in Procs |-> NIL]
        /\ old = [p \in Procs |-> NIL]
        /\ done = [p \in Procs |-> 0]
        /\ tmp = [p \in Procs |-> 0]
        /\ replaced = {}

Begin(p) == /\ pc[p] = "idle" /\ done[p] < WritesPerProc
            /\ \E h \in Hashes, v \in Vals :
                 cur' = [cur EXCEPT ![p] = [h |-> h, v |-> v, tag |-> <<p, done[p]>>]]
            /\ pc' = [pc EXCEPT ![p] = "load"]
            /\ UNCHANGED <<slot, used, old, done, tmp, replaced>>

Load(p) == /\ pc[p] = "load"
           /\ old' = [old EXCEPT ![p] = slot[SlotOf(cur[p].h)]]
           /\ pc' = [pc EXCEPT ![p] = "test"]
           /\ UNCHANGED <<slot, used, cur, done, tmp, replaced>>

Test(p) == /\ pc[p] = "test"
           /\ IF ValOf(old[p]) > ValOf(cur[p])
              THEN /\ pc' = [pc EXCEPT ![p] = "idle"] /\ done' = [done EXCEPT ![p] = @ + 1]   \* skip
              ELSE /\ pc' = [pc EXCEPT ![p] = "cas"] /\ UNCHANGED done
           /\ UNCHANGED <<slot, used, cur, old, tmp, replaced>>

Cas(p) == /\ pc[p] = "cas"
          /\ LET s == SlotOf(cur[p].h) IN
             IF slot[s] = old[p]
             THEN /\ slot' = [slot EXCEPT ![s] = cur[p]]
                  /\ replaced' = replaced \cup {<<ValOf(old[p]), ValOf(cur[p])>>}
                  /\ IF old[p] = NIL
                     THEN IF AtomicUsed
                          THEN /\ used' = used + 1 /\ pc' = [pc EXCEPT ![p] = "idle"]
                               /\ done' = [done EXCEPT ![p] = @ + 1] /\ UNCHANGED tmp
                          ELSE /\ pc' = [pc EXCEPT ![p] = "incr-read"] /\ UNCHANGED <<used, done, tmp>>
                     ELSE /\ pc' = [pc EXCEPT ![p] = "idle"] /\ done' = [done EXCEPT ![p] = @ + 1]
                          /\ UNCHANGED <<used, tmp>>
                  /\ UNCHANGED old
             ELSE /\ old' = [old EXCEPT ![p] = slot[s]]     \* lost the race: reload and retry
                  /\ pc' = [pc EXCEPT ![p] = "test"]
                  /\ UNCHANGED <<slot, used, done, tmp, replaced>>
          /\ UNCHANGED cur

IncrRead(p) == /\ pc[p] = "incr-read"
               /\ tmp' = [tmp EXCEPT ![p] = used]
               /\ pc' = [pc EXCEPT ![p] = "incr-write"]
               /\ UNCHANGED <<slot, used, cur, old, done, replaced>>

IncrWrite(p) == /\ pc[p] = "incr-write"
                /\ used' = tmp[p] + 1
                /\ pc' = [pc EXCEPT ![p] = "idle"]
                /\ done' = [done EXCEPT ![p] = @ + 1]
                /\ UNCHANGED <<slot, cur, old, tmp, replaced>>

Next == \E p \in Procs : Begin(p) \/ Load(p) \/ Test(p) \/ Cas(p) \/ IncrRead(p) \/ IncrWrite(p)
Spec == Init /\ [][Next]_vars

Occupied == { s \in Slots : slot[s] # NIL }
Quiescent == \A p \in Procs : pc[p] = "idle"
InFlightIncrements == Cardinality({ p \in Procs : pc[p] \in {"incr-read", "incr-write"} })

\* a slot always holds exactly one Write's tuple, for a hash that maps to that slot
SlotIntegrity == \A s \in Slots : slot[s] # NIL => SlotOf(slot[s].h) = s /\ slot[s].tag # <<>>
\* a store only replaces an entry of no greater replacement value
ReplacementOrder == \A pr \in replaced : pr[1] <= pr[2]
\* the fill counter stays within [0, slots] and counts every occupied slot exactly once
UsedInRange == used >= 0 /\ used <= NSlots
UsedExact == Quiescent => used = Cardinality(Occupied)
UsedTracks == used + InFlightIncrements = Cardinality(Occupied)
=============================================================================
