------------------------------ MODULE FenCursor ------------------------------
(***************************************************************************)
(* The piece-placement field of a FEN as the decoder PROCESSES it: a       *)
(* cursor that starts at the last square index and counts down, one token  *)
(* at a time (C19).  Parametric in the board size, so that the cursor      *)
(* arithmetic is model-checked exhaustively on a small board:              *)
(*                                                                         *)
(*   NF x NR board (N = NF*NR squares, cursor starts at N-1)               *)
(*   tokens: "/" (cosmetic), a digit d (skip d squares), "p" (a piece)     *)
(*   Mod      modulus of the cursor's machine type (256 for the 8-bit      *)
(*            square the decoder first used; 0 = a plain integer)          *)
(*   Checked  the bounds checks of the repaired decoder (cursor may not    *)
(*            pass -1; a piece needs a cursor >= 0)                        *)
(*                                                                         *)
(* Property: for EVERY token string up to MaxLen, the decoder never        *)
(* indexes outside the board (a crash), and a string it accepts places     *)
(* every piece on a distinct square of the board and accounts for exactly  *)
(* N squares.  With (Mod > 0, Checked = FALSE) TLC finds the wrap-around.  *)
(***************************************************************************)
EXTENDS Integers, Sequences, FiniteSets

CONSTANTS NF, NR, MaxDigit, Mod, Checked, MaxLen

N == NF * NR
Tokens == { <<"/", 0>>, <<"p", 0>> } \cup { <<"d", d>> : d \in 1..MaxDigit }

VARIABLES toks,     \* the string so far
          sq,       \* the cursor (as the machine holds it)
          placed,   \* squares that received a piece
          count,    \* squares accounted for so far (ghost: true arithmetic)
          status    \* "run" | "error" (rejected) | "crash" (index outside the board) | "dup" (two pieces on one square)
vars == <<toks, sq, placed, count, status>>

Wrap(x) == IF Mod = 0 THEN x ELSE ((x % Mod) + Mod) % Mod

Init == toks = <<>> /\ sq = Wrap(N - 1) /\ placed = {} /\ count = 0 /\ status = "run"

Step(t) ==
  /\ status = "run" /\ Len(toks) < MaxLen
  /\ toks' = Append(toks, t)
  /\ IF t[1] = "/" THEN UNCHANGED <<sq, placed, count, status>>
     ELSE IF t[1] = "p"
     THEN IF Checked /\ sq < 0 THEN status' = "error" /\ UNCHANGED <<sq, placed, count>>
          ELSE IF sq \notin 0..(N - 1) THEN status' = "crash" /\ UNCHANGED <<sq, placed, count>>
          ELSE IF sq \in placed THEN status' = "dup" /\ UNCHANGED <<sq, placed, count>>
          ELSE placed' = placed \cup {sq} /\ sq' = Wrap(sq - 1) /\ count' = count + 1 /\ UNCHANGED status
     ELSE LET d == t[2] IN
          IF Checked /\ sq - d < -1 THEN status' = "error" /\ UNCHANGED <<sq, placed, count>>
          ELSE sq' = Wrap(sq - d) /\ count' = count + d /\ UNCHANGED <<placed, status>>

Next == \E t \in Tokens : Step(t)
Spec == Init /\ [][Next]_vars

\* the end-of-field test: every square accounted for
Accepts == status = "run" /\ (IF Checked THEN sq = -1 ELSE Wrap(sq + 1) = 0)

NeverCrashes == status # "crash"
NoDuplicate == status # "dup"
AcceptedIsExact == Accepts => (count = N /\ placed \subseteq 0..(N - 1))
=============================================================================
