----------------------------- MODULE TimeControl -----------------------------
(***************************************************************************)
(* Soft and hard time limit granted to a move (C15): with remaining time r *)
(* and m moves to the next time control (m <= 0: unknown, assume 40), the  *)
(* soft limit is r / (2 * (m + 1)) and the hard limit three times that.    *)
(* Lemma (checked by TLC on a grid, see MCIterative): hard <= r for r >= 0.*)
(***************************************************************************)
EXTENDS Integers

\* remaining time r (any unit), moves to go m (<= 0: unknown -> 40)
MovesDiv(m) == IF m > 0 THEN m + 1 ELSE 40
Soft(r, m) == r \div (2 * MovesDiv(m))
Hard(r, m) == 3 * Soft(r, m)
HardWithinClock(r, m) == r >= 0 => Hard(r, m) <= r
=============================================================================
