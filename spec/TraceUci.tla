------------------------------ MODULE TraceUci ------------------------------
(***************************************************************************)
(* Trace validation for the UCI driver (C04, C16): the externally visible  *)
(* contract, judged on executions of the REAL driver recorded through the  *)
(* verif hooks.  One event per hook point / command / output line, in the  *)
(* controller's sequence; the sections whose order matters (command        *)
(* dequeue, ensureInactive, go activation, completion CAS + sends) are     *)
(* serialised by the controller, so their recorded order is the real one.  *)
(*                                                                         *)
(* State of the contract:                                                  *)
(*   game     the game the last position command describes (oracle built   *)
(*            here from its text, as in TraceUciPos)                       *)
(*   pending  a go has been activated and not yet answered or superseded   *)
(*   cur      the search instance the pending go launched                  *)
(*   A go is SUPERSEDED when the loop starts processing a later position,  *)
(*   go or ucinewgame (the ensureInactive step of that command).           *)
(*                                                                         *)
(* Judged: a completion (the compare-and-swap that decides to emit a       *)
(* bestmove) happens only for a pending go; the bestmove text is legal in  *)
(* `game' (0000 only without legal moves) and -- with the stub search,     *)
(* whose move identifies the instance -- is the move of instance `cur';    *)
(* every isready has its readyok; at quiescence a pending go whose search  *)
(* has ended by itself (not infinite) or was told to stop is a failure;    *)
(* the driver exits only on quit / end of input.                           *)
(***************************************************************************)
EXTENDS Fen, Json, IOUtils, TLC

CONSTANT Props
Tr == ndJsonDeserialize(IOEnv.TRACE)

NoMv == Mv(-1, -1, 0)
B == INSTANCE Board WITH
       GLegal <- Legal, GApply <- Apply, GTurn <- LAMBDA p : p.turn,
       GResets <- IsPawnMoveOrCapture, GIsCastle <- IsCastle,
       GInCheck <- LAMBDA p : InCheck(p.b, p.turn),
       GMayKill <- LAMBDA p, m : p.b[m.t+1] # 0 \/ m.p \in {KNIGHT, BISHOP},
       GInsufficient <- LAMBDA p : Insufficient(p.b),
       NoMove <- NoMv, NoProgressLimit <- 100

Want(p) == p \in Props
StartFen == "rnbqkbnr/pppppppp/8/8/8/8/PPPPPPPP/RNBQKBNR w KQkq - 0 1"
FileIdx(ch) == (CHOOSE f \in 1..8 : FileChars[f] = ch) - 1
RankIdx(ch) == (CHOOSE r \in 1..8 : ToString(r) = ch) - 1
PromoKind(ch) == CASE ch = "q" -> QUEEN [] ch = "r" -> ROOK [] ch = "b" -> BISHOP [] ch = "n" -> KNIGHT
MoveOf(s) == Mv(At(FileIdx(Ch(s, 1)), RankIdx(Ch(s, 2))), At(FileIdx(Ch(s, 3)), RankIdx(Ch(s, 4))),
                IF Len(s) = 5 THEN PromoKind(Ch(s, 5)) ELSE 0)
Tokens(line) == SelectSeq(Fields(line), LAMBDA t : t # "")
RECURSIVE Play(_, _, _)
Play(bd, toks, i) == IF i > Len(toks) THEN bd
                     ELSE LET m == MoveOf(toks[i]) IN
                          IF B!CanPush(bd, m) THEN Play(B!PushOp(bd, m), toks, i+1) ELSE bd
Describe(t) ==
  IF t[2] = "startpos"
  THEN LET d == Decode(StartFen) IN Play(B!NewBoard(d.pos, d.np, d.fm), IF Len(t) >= 3 THEN SubSeq(t, 4, Len(t)) ELSE <<>>, 1)
  ELSE LET d == Decode(t[3] \o " " \o t[4] \o " " \o t[5] \o " " \o t[6] \o " " \o t[7] \o " " \o t[8]) IN
       Play(B!NewBoard(d.pos, d.np, d.fm), IF Len(t) >= 9 THEN SubSeq(t, 10, Len(t)) ELSE <<>>, 1)
\* a position command the driver accepts: well-formed, the FEN decodes, every move is legal where it is played
\* (anything else - also a move that leaves the king in check - lets the driver give up in an orderly way)
RECURSIVE PlayOK(_, _, _)
PlayOK(bd, toks, i) == i > Len(toks) \/ (LET m == MoveOf(toks[i]) IN B!CanPush(bd, m) /\ PlayOK(B!PushOp(bd, m), toks, i+1))
WellFormedPosition(t) == Len(t) >= 2 /\ t[1] = "position" /\ (t[2] = "startpos" \/ (t[2] = "fen" /\ Len(t) >= 8))
IsPosition(t) ==
  /\ WellFormedPosition(t)
  /\ IF t[2] = "startpos"
     THEN LET d == Decode(StartFen) IN PlayOK(B!NewBoard(d.pos, d.np, d.fm), IF Len(t) >= 3 THEN SubSeq(t, 4, Len(t)) ELSE <<>>, 1)
     ELSE LET d == Decode(t[3] \o " " \o t[4] \o " " \o t[5] \o " " \o t[6] \o " " \o t[7] \o " " \o t[8]) IN
          d.ok /\ PlayOK(B!NewBoard(d.pos, d.np, d.fm), IF Len(t) >= 9 THEN SubSeq(t, 10, Len(t)) ELSE <<>>, 1)
Has(t, w) == \E i \in 1..Len(t) : t[i] = w
\* a go command the driver accepts (numeric arguments present and numeric)
GoOK(t) == \A i \in 1..Len(t) : t[i] \in {"depth", "movetime", "wtime", "btime", "movestogo"} => (i < Len(t) /\ ParseNat(t[i+1]) # -1)

\* the number after a keyword of a go command (0 if the keyword is absent)
ArgOf(t, w) == IF Has(t, w) THEN ParseNat(t[(CHOOSE i \in 1..Len(t) : t[i] = w /\ \A j \in 1..(i-1) : t[j] # w) + 1]) ELSE 0

VARIABLES l,        \* scenario index
          st        \* verdict state of the scenario just judged (kept small)
vars == <<l, st>>

Init0 == [game |-> B!NewBoard(Decode(StartFen).pos, 0, 1), nextgame |-> B!NewBoard(Decode(StartFen).pos, 0, 1), lastcmd |-> "", lastline |-> <<>>,
          pending |-> FALSE, cur |-> 0, launched |-> 0, infinite |-> FALSE, stopped |-> FALSE,
          ended |-> {}, moves |-> [k \in {} |-> ""], winners |-> <<>>, asked |-> 0, readyok |-> 0,
          exited |-> FALSE, mayexit |-> FALSE, clocks |-> {}, fails |-> {}, bookgo |-> FALSE, nbest |-> 0, ngo |-> 0, unsettled |-> FALSE, final |-> FALSE, busy |-> FALSE, curAtCmd |-> -1]

AddFail(s, name, cond) == IF cond THEN s ELSE [s EXCEPT !.fails = @ \cup {name}]

\* one event
Step(s, ev, stub) ==
  LET nm == ev.name a == ev.args IN
  CASE nm = "uci.loop.cmd" ->
         LET t == Tokens(a[1]) c == IF Len(t) = 0 THEN "" ELSE t[1] IN
         [s EXCEPT !.lastcmd = c, !.lastline = t, !.busy = TRUE,
                   \* the go that is pending when a command arrives (see uci.loop.idle)
                   !.curAtCmd = IF s.pending THEN s.cur ELSE -1,
                   \* the game changes when the loop starts processing the command (its ensureInactive step),
                   \* not when it merely dequeues it: a completion decided in between still belongs to the old game
                   !.nextgame = IF IsPosition(t) THEN Describe(t) ELSE s.game,
                   !.stopped = IF c = "stop" /\ s.pending THEN TRUE ELSE @,
                   !.asked = IF c = "isready" THEN @ + 1 ELSE @,
                   !.mayexit = IF c = "quit" \/ (c = "position" /\ ~IsPosition(t)) \/ (c = "go" /\ ~GoOK(t)) THEN TRUE ELSE @,
                   \* the clocks a go command states (milliseconds; a clock that is not given is 0)
                   !.clocks = IF c = "go" /\ GoOK(t)
                              THEN @ \cup {<<ArgOf(t, "wtime"), ArgOf(t, "btime")>>} ELSE @,
                   !.bookgo = (c = "go"),
                   !.ngo = IF c = "go" THEN @ + 1 ELSE @]
    [] nm = "uci.inactive.begin" ->
         \* the loop starts processing position / go / ucinewgame (or shuts down): the pending go is superseded
         [s EXCEPT !.pending = FALSE, !.stopped = FALSE, !.game = IF s.lastcmd = "position" THEN s.nextgame ELSE @]
    [] nm = "engine.analyze.launched" -> [s EXCEPT !.launched = @ + 1]
    [] nm = "uci.go.activated" ->
         [s EXCEPT !.pending = TRUE, !.cur = s.launched, !.infinite = Has(s.lastline, "infinite"), !.stopped = FALSE, !.bookgo = FALSE]
    [] nm = "stub.result" -> [s EXCEPT !.moves = (a[1] :> a[3]) @@ @]
    \* the limits a search derived from its time control (microseconds): the hard limit - when the search is
    \* stopped at the latest - never exceeds what some go command of this session left the side to move
    [] nm = "iter.limits" ->
         AddFail(s, "c15.hard-limit-exceeds-the-clock-given",
                 \E g \in s.clocks : a[6] <= (IF a[1] = 0 THEN g[1] ELSE g[2]) * 1000)
    [] nm = "iter.exit" -> s
    [] nm = "stub.halted" -> s
    [] nm = "uci.fwd.closed" -> [s EXCEPT !.ended = @ \cup {ev.role}]
    [] nm = "uci.complete.won" ->
         \* a book answer is given by the loop itself right after the go command, without a search
         LET book == ev.role = "loop" /\ s.bookgo /\ s.lastcmd = "go"
             \* (for C04: an answer nobody is waiting for is a second bestmove for some go, or one for none)
             s1 == AddFail(AddFail(s, "c16.completion-without-pending-go", s.pending \/ book),
                           "c04.bestmove-without-pending-go", s.pending \/ book)
             \* the completion belongs to the pending go: it is made by the loop (stop / book) or by
             \* the forwarder of the search that go launched (forwarders are numbered in launch order)
             s2 == AddFail(s1, "c16.bestmove-of-superseded-search", ev.role = "loop" \/ ev.role = "fwd" \o ToString(s.cur))
         IN [s2 EXCEPT !.pending = FALSE,
                       !.winners = Append(@, [cur |-> IF book THEN 0 ELSE s.cur, role |-> ev.role, game |-> s.game])]
    [] nm = "out" ->
         LET t == Tokens(a[1]) IN
         IF Len(t) >= 1 /\ t[1] = "readyok" THEN [s EXCEPT !.readyok = @ + 1]
         ELSE IF Len(t) >= 2 /\ t[1] = "bestmove"
         THEN IF s.winners = <<>> THEN AddFail([s EXCEPT !.nbest = @ + 1], "c16.bestmove-without-completion", FALSE)
              ELSE LET w == Head(s.winners)
                       pos == B!Cur(w.game)       \* the position last set up when the completion was decided
                       L == Legal(pos)
                       legal == IF t[2] = "0000" THEN L = {} ELSE (Len(t[2]) \in {4, 5} /\ MoveOf(t[2]) \in L)
                       s1 == AddFail(s, "c04.bestmove-not-legal-in-position-last-set-up", legal)
                       s2 == IF stub /\ w.cur > 0
                             THEN AddFail(s1, "c16.bestmove-move-of-another-search", w.cur \in DOMAIN s.moves /\ s.moves[w.cur] = t[2])
                             ELSE s1
                   IN [s2 EXCEPT !.winners = Tail(@), !.nbest = @ + 1]
         ELSE s
    [] nm = "uci.loop.exit" ->
         \* the loop ends without having been told to (quit, end of input, a malformed line): the driver is gone,
         \* and a go that is being processed or still awaits its answer will never be answered
         LET s1 == AddFail(s, "c16.driver-exited", s.mayexit)
             s2 == AddFail(s1, "c04.go-unanswered-driver-exited",
                           s.mayexit \/ ~(s.pending \/ (s.busy /\ s.lastcmd = "go" /\ GoOK(s.lastline))))
         IN [s2 EXCEPT !.exited = TRUE]
    [] nm = "harness.eof" -> [s EXCEPT !.mayexit = TRUE]
    [] nm = "harness.final-run" -> [s EXCEPT !.final = TRUE]
    \* the loop has finished a command. A go that was pending when a position / go / ucinewgame command arrived
    \* is superseded by then at the latest - whether or not the driver went through ensureInactive (whose hook
    \* marks the usual instant): an answer for it from now on is an answer nobody waits for
    [] nm = "uci.loop.idle" ->
         IF s.busy /\ s.pending /\ s.curAtCmd = s.cur /\ s.cur # -1
            /\ (s.lastcmd \in {"go", "ucinewgame"} \/ (s.lastcmd = "position" /\ IsPosition(s.lastline)))
         THEN [s EXCEPT !.busy = FALSE, !.pending = FALSE, !.stopped = FALSE,
                        !.game = IF s.lastcmd = "position" THEN s.nextgame ELSE @]
         ELSE [s EXCEPT !.busy = FALSE]
    \* the scenario process died with a Go panic (the events up to then were logged as they were recorded):
    \* a crash of the driver; and a go that is being processed or still awaits its answer is never answered
    [] nm = "harness.crash" ->
         LET s1 == AddFail(s, "c16.crash", ~Want("C16"))
         IN AddFail(s1, "c04.go-unanswered-driver-crashed",
                    ~(Want("C04") /\ (s.pending \/ (s.busy /\ s.lastcmd = "go" /\ GoOK(s.lastline)))))
    [] nm = "harness.undelivered" -> AddFail(s, "c16.command-not-taken", s.exited)
    [] nm = "quiescent" ->
         \* a scenario the harness could not bring to rest in time (a loaded machine) is judged for what was
         \* observed up to then, but not for what should have happened by the end; the driver counts them
         \* a[2]: quit / end of input was sent; a[3]: the driver closed its output channel.  A driver that has
         \* not shut down several seconds after quit / EOF is not "a slow machine"
         IF a[2] /\ ~a[3] THEN AddFail(s, "c16.shutdown-incomplete", FALSE) ELSE
         \* not at rest: the first time the driver runs the scenario again on its own with a long limit
         \* ("final"); a scenario that does not come to rest then either is a driver that is stuck
         IF ~a[1] THEN
            (IF ~s.final THEN [s EXCEPT !.unsettled = TRUE]
             ELSE LET s1 == AddFail(s, "c16.does-not-come-to-rest", ~Want("C16"))
                  IN AddFail(s1, "c04.go-unanswered-driver-stuck", ~(Want("C04") /\ s.pending /\ (~s.infinite \/ s.stopped))))
         ELSE
         LET s1 == s
             s2 == AddFail(s1, "c16.isready-unanswered", s.exited \/ s.readyok = s.asked)
             \* a pending go must have been answered if its search ended by itself (and it is not an
             \* infinite search) or it was told to stop
             fwdEnded == \E r \in s.ended : TRUE
             s3 == AddFail(s2, "c04.go-unanswered-after-stop", ~(s.pending /\ s.stopped))
             s4 == AddFail(s3, "c04.go-unanswered-after-search-ended",
                           ~(s.pending /\ ~s.infinite /\ ("fwd" \o ToString(s.cur)) \in s.ended /\ ~s.exited))
             s5 == AddFail(s4, "c16.bestmove-lost", s.winners = <<>> \/ s.exited)
         IN s5
    [] OTHER -> s

RECURSIVE Run(_, _, _, _)
Run(s, evs, i, stub) == IF i > Len(evs) THEN s ELSE Run(Step(s, evs[i], stub), evs, i + 1, stub)

Init == l = 1 /\ st = Init0.fails

Next ==
  /\ l <= Len(Tr)
  /\ LET e == Tr[l] IN
     IF e.op = "events"
     THEN LET stub == Tr[l-1].stub
              s == Run(Init0, e.events, 1, stub)
              f == { x \in s.fails : (Want("C04") /\ SubSeq(x, 1, 3) = "c04") \/ (Want("C16") /\ SubSeq(x, 1, 3) = "c16") \/ (Want("C15") /\ SubSeq(x, 1, 3) = "c15") \/ SubSeq(x, 1, 3) = "har" }
          IN /\ (f # {} => PrintT("FAIL|" \o ToString(l) \o "|" \o ToString(f)))
             /\ PrintT("NOTE|scenario|go=" \o ToString(s.ngo) \o "|best=" \o ToString(s.nbest))
             /\ (s.unsettled => PrintT("NOTE|unsettled|" \o ToString(l)))
             /\ st' = f
     ELSE st' = {}
  /\ l' = l + 1

Spec == Init /\ [][Next]_vars
Accepted == TLCGet("stats").diameter - 1 = Len(Tr)
=============================================================================
