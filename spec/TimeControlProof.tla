-------------------------- MODULE TimeControlProof --------------------------
(* Unbounded proof (TLAPS) of the time-control lemma of TimeControl.tla:    *)
(* the hard limit granted to a move never exceeds the time left.            *)
EXTENDS TimeControl, TLAPS

LEMMA DivLemma == \A r \in Nat, d \in Nat : d >= 4 => 3 * (r \div d) <= r
  <1> SUFFICES ASSUME NEW r \in Nat, NEW d \in Nat, d >= 4 PROVE 3 * (r \div d) <= r
    OBVIOUS
  <1>1. d * (r \div d) <= r /\ (r \div d) \in Nat
    BY SMT
  <1>2. 3 * (r \div d) <= d * (r \div d)
    BY <1>1, SMT
  <1> QED BY <1>1, <1>2, SMT

THEOREM HardLimitWithinClock == \A r \in Nat, m \in Int : Hard(r, m) <= r
  <1> SUFFICES ASSUME NEW r \in Nat, NEW m \in Int PROVE Hard(r, m) <= r
    OBVIOUS
  <1>1. 2 * MovesDiv(m) \in Nat /\ 2 * MovesDiv(m) >= 4
    BY DEF MovesDiv
  <1> QED BY <1>1, DivLemma DEF Hard, Soft
=============================================================================
