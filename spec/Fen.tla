-------------------------------- MODULE Fen --------------------------------
(***************************************************************************)
(* Forsyth-Edwards Notation (C14, C19; oracle for C10 and C20).            *)
(*   Encode(pos, np, fm) : the standard FEN string of a position, its      *)
(*                         half-move clock and full-move number.           *)
(*   Decode(str)         : the strict standard grammar -- [ok |-> FALSE]   *)
(*                         for everything else.  The implementation may    *)
(*                         accept more than this (the properties do not    *)
(*                         prescribe what is rejected); it must accept at  *)
(*                         least the canonical strings.                    *)
(*   Canonical(str)      : Decode accepts and Encode reproduces str.       *)
(* Strings are TLC strings; Ch(s, i) is the one-character string at i.     *)
(***************************************************************************)
EXTENDS Chess, TLC

Ch(s, i) == SubSeq(s, i, i)

PieceChars == <<"P", "N", "B", "R", "Q", "K", "p", "n", "b", "r", "q", "k">>
PieceChar(pc) == PieceChars[pc]
IsPieceChar(ch) == \E i \in 1..12 : PieceChars[i] = ch
CharPiece(ch) == CHOOSE i \in 1..12 : PieceChars[i] = ch

Digits == <<"0", "1", "2", "3", "4", "5", "6", "7", "8", "9">>
IsDigit(ch) == \E i \in 1..10 : Digits[i] = ch
DigitVal(ch) == (CHOOSE i \in 1..10 : Digits[i] = ch) - 1

FileChars == <<"a", "b", "c", "d", "e", "f", "g", "h">>
SquareName(s) == FileChars[File(s)+1] \o ToString(Rank(s)+1)

(* ------------------------------ Encode --------------------------------- *)
RECURSIVE EncRank(_,_,_,_)
\* files f..7 of rank r, with `blanks' empty squares pending
EncRank(b, r, f, blanks) ==
  IF f = 8 THEN (IF blanks > 0 THEN ToString(blanks) ELSE "")
  ELSE LET pc == b[At(f, r)+1] IN
       IF pc = 0 THEN EncRank(b, r, f+1, blanks+1)
       ELSE (IF blanks > 0 THEN ToString(blanks) ELSE "") \o PieceChar(pc) \o EncRank(b, r, f+1, 0)

RECURSIVE EncBoard(_,_)
EncBoard(b, r) == EncRank(b, r, 0, 0) \o (IF r = 0 THEN "" ELSE "/" \o EncBoard(b, r-1))

EncRights(cr) == IF cr = 0 THEN "-"
                 ELSE (IF HasRight(cr, 1) THEN "K" ELSE "") \o (IF HasRight(cr, 2) THEN "Q" ELSE "")
                      \o (IF HasRight(cr, 4) THEN "k" ELSE "") \o (IF HasRight(cr, 8) THEN "q" ELSE "")

Encode(pos, np, fm) ==
  EncBoard(pos.b, 7) \o " " \o (IF pos.turn = 0 THEN "w" ELSE "b") \o " " \o EncRights(pos.cr) \o " "
  \o (IF pos.ep = -1 THEN "-" ELSE SquareName(pos.ep)) \o " " \o ToString(np) \o " " \o ToString(fm)

(* ------------------------------ Decode --------------------------------- *)
\* split a string at single spaces into a sequence of strings
RECURSIVE SplitAt(_,_,_,_)
SplitAt(s, i, start, acc) ==
  IF i > Len(s) THEN Append(acc, SubSeq(s, start, Len(s)))
  ELSE IF Ch(s, i) = " " THEN SplitAt(s, i+1, i+1, Append(acc, SubSeq(s, start, i-1)))
  ELSE SplitAt(s, i+1, start, acc)
Fields(s) == SplitAt(s, 1, 1, <<>>)

RECURSIVE NatOf(_,_,_)
NatOf(s, i, acc) == IF i > Len(s) THEN acc
                    ELSE IF ~IsDigit(Ch(s, i)) \/ acc > 100000000 THEN -1
                    ELSE NatOf(s, i+1, acc*10 + DigitVal(Ch(s, i)))
\* decimal natural number without sign; -1 if not one (or too large for this model)
ParseNat(s) == IF Len(s) = 0 THEN -1 ELSE NatOf(s, 1, 0)

EmptyBoard == [i \in 1..64 |-> 0]

(* The placement field as a cursor machine: the cursor starts at a8 and    *)
(* walks each rank from file a to file h; "/" is required exactly at the   *)
(* end of a rank; a digit 1..8 skips that many squares and must stay on    *)
(* the rank; a piece letter occupies one square.                           *)
RECURSIVE DecBoard(_,_,_,_,_)
DecBoard(s, i, r, f, b) ==
  IF i > Len(s) THEN [ok |-> (r = 0 /\ f = 8), b |-> b]
  ELSE LET ch == Ch(s, i) IN
       IF ch = "/" THEN (IF f = 8 /\ r > 0 THEN DecBoard(s, i+1, r-1, 0, b) ELSE [ok |-> FALSE, b |-> b])
       ELSE IF IsDigit(ch) THEN
              LET d == DigitVal(ch) IN
              IF d >= 1 /\ f + d <= 8 THEN DecBoard(s, i+1, r, f+d, b) ELSE [ok |-> FALSE, b |-> b]
       ELSE IF IsPieceChar(ch) THEN
              IF f <= 7 THEN DecBoard(s, i+1, r, f+1, [b EXCEPT ![At(f, r)+1] = CharPiece(ch)])
              ELSE [ok |-> FALSE, b |-> b]
       ELSE [ok |-> FALSE, b |-> b]

RECURSIVE DecRights(_,_,_)
DecRights(s, i, cr) ==
  IF i > Len(s) THEN cr
  ELSE LET bit == CASE Ch(s, i) = "K" -> 1 [] Ch(s, i) = "Q" -> 2 [] Ch(s, i) = "k" -> 4 [] Ch(s, i) = "q" -> 8 [] OTHER -> 0
       IN IF bit = 0 \/ HasRight(cr, bit) THEN -1 ELSE DecRights(s, i+1, cr + bit)
ParseRights(s) == IF s = "-" THEN 0 ELSE IF Len(s) = 0 THEN -1 ELSE DecRights(s, 1, 0)

ParseSquare(s) ==
  IF Len(s) # 2 THEN -2
  ELSE LET fs == { f \in 0..7 : FileChars[f+1] = Ch(s, 1) }
           rs == { r \in 0..7 : ToString(r+1) = Ch(s, 2) }
       IN IF fs = {} \/ rs = {} THEN -2 ELSE At(CHOOSE f \in fs : TRUE, CHOOSE r \in rs : TRUE)

Reject == [ok |-> FALSE]
Decode(str) ==
  LET fs == Fields(str) IN
  IF Len(fs) # 6 THEN Reject
  ELSE LET bd == DecBoard(fs[1], 1, 7, 0, EmptyBoard)
           turn == IF fs[2] = "w" THEN 0 ELSE IF fs[2] = "b" THEN 1 ELSE -1
           cr == ParseRights(fs[3])
           \* an en-passant target is the square behind a pawn that just made a double step:
           \* it lies on the third or the sixth rank
           ep == IF fs[4] = "-" THEN -1
                 ELSE LET sq == ParseSquare(fs[4]) IN IF sq # -2 /\ Rank(sq) \in {2, 5} THEN sq ELSE -2
           np == ParseNat(fs[5])
           fm == ParseNat(fs[6])
       IN IF ~bd.ok \/ turn = -1 \/ cr = -1 \/ ep = -2 \/ np = -1 \/ fm = -1 THEN Reject
          ELSE [ok |-> TRUE, pos |-> [b |-> bd.b, turn |-> turn, cr |-> cr, ep |-> ep], np |-> np, fm |-> fm]

Canonical(str) == LET d == Decode(str) IN d.ok /\ Encode(d.pos, d.np, d.fm) = str

\* theorems TLC evaluates on every position it meets
RoundTrip(pos, np, fm) == LET d == Decode(Encode(pos, np, fm)) IN d.ok /\ d.pos = pos /\ d.np = np /\ d.fm = fm
=============================================================================
