---------------------------- MODULE TraceUciPos -----------------------------
(***************************************************************************)
(* Trace validation for the UCI `position' handling (C10; reported FEN of  *)
(* C14).  The oracle is built by THIS module from the text of the last     *)
(* position command alone: the start position by Fen!Decode, every move by *)
(* Board!PushOp with Chess!Legal -- i.e. "set the whole line up from       *)
(* scratch".  The engine behind the real driver must then report exactly   *)
(* that game: FEN (standard clocks), ply, clocks, last move, castled flags,*)
(* and -- read out at the end of a session by popping a fork of the        *)
(* engine's board to its root -- the same line of positions it would use   *)
(* for repetition detection.                                               *)
(***************************************************************************)
EXTENDS Fen, Json, IOUtils, TLC

CONSTANT Props
Tr == ndJsonDeserialize(IOEnv.TRACE)
VARIABLES l, oracle, valid
vars == <<l, oracle, valid>>
Chk(name, cond) == IF cond THEN {} ELSE {name}
Want(p) == p \in Props

NoMv == Mv(-1, -1, 0)
B == INSTANCE Board WITH
       GLegal <- Legal, GApply <- Apply, GTurn <- LAMBDA p : p.turn,
       GResets <- IsPawnMoveOrCapture, GIsCastle <- IsCastle,
       GInCheck <- LAMBDA p : InCheck(p.b, p.turn),
       GMayKill <- LAMBDA p, m : p.b[m.t+1] # 0 \/ m.p \in {KNIGHT, BISHOP},
       GInsufficient <- LAMBDA p : Insufficient(p.b),
       NoMove <- NoMv, NoProgressLimit <- 100

StartFen == "rnbqkbnr/pppppppp/8/8/8/8/PPPPPPPP/RNBQKBNR w KQkq - 0 1"

\* coordinate text -> move (lower-case canonical text only; the harness sends nothing else)
FileIdx(ch) == (CHOOSE f \in 1..8 : FileChars[f] = ch) - 1
RankIdx(ch) == (CHOOSE r \in 1..8 : ToString(r) = ch) - 1
PromoKind(ch) == CASE ch = "q" -> QUEEN [] ch = "r" -> ROOK [] ch = "b" -> BISHOP [] ch = "n" -> KNIGHT
MoveOf(s) == Mv(At(FileIdx(Ch(s, 1)), RankIdx(Ch(s, 2))), At(FileIdx(Ch(s, 3)), RankIdx(Ch(s, 4))),
                IF Len(s) = 5 THEN PromoKind(Ch(s, 5)) ELSE 0)

\* the non-empty tokens of a command line
Tokens(line) == SelectSeq(Fields(line), LAMBDA t : t # "")

RECURSIVE Play(_, _, _)
Play(bd, toks, i) == IF i > Len(toks) THEN bd
                     ELSE LET m == MoveOf(toks[i]) IN
                          IF B!CanPush(bd, m) THEN Play(B!PushOp(bd, m), toks, i+1)
                          ELSE [bd EXCEPT !.res = "illegal-in-oracle"]

\* the game a position command describes
Describe(line) ==
  LET t == Tokens(line) IN
  IF t[2] = "startpos"
  THEN LET d == Decode(StartFen) IN
       Play(B!NewBoard(d.pos, d.np, d.fm), IF Len(t) >= 3 THEN SubSeq(t, 4, Len(t)) ELSE <<>>, 1)
  ELSE LET d == Decode(t[3] \o " " \o t[4] \o " " \o t[5] \o " " \o t[6] \o " " \o t[7] \o " " \o t[8]) IN
       Play(B!NewBoard(d.pos, d.np, d.fm), IF Len(t) >= 9 THEN SubSeq(t, 10, Len(t)) ELSE <<>>, 1)

MetaOf(x) == IF x = <<>> THEN NoMv ELSE Mv(x[1], x[2], x[3])

JudgeState(e, bd) ==
  LET s == e.state pos == B!Cur(bd) IN
     Chk("harness.oracle-illegal-line", bd.res # "illegal-in-oracle")
  \cup (IF Want("C10") THEN
          Chk("c10.position", s.pos = pos)
     \cup Chk("c10.clocks", s.np = B!NoProgress(bd) /\ s.fm = B!FullMoves(bd))
     \cup Chk("c10.ply", s.ply = B!Ply(bd))
     \cup Chk("c10.last-move", MetaOf(s.last) = B!LastMove(bd))
     \cup Chk("c10.castled", \A c \in 0..1 : (s.castled[c+1] = 1) = B!HasCastled(bd, c))
     \cup Chk("c10.result", (s.out = 4) => B!DrawSomewhere(bd))
     \cup Chk("c10.draw-missed", (bd.fresh /\ B!DrawNow(bd)) => s.out = 4)
        ELSE {})
  \cup (IF Want("C14") THEN Chk("c14.engine-fen", s.fen = Encode(pos, B!NoProgress(bd), B!FullMoves(bd))) ELSE {})

JudgeCmd(e, bd) ==
     Chk("c10.driver-died", e.dead = 0)
  \cup Chk("harness.no-answer-in-time", e.dead = 1 \/ (e.sent = 1 /\ e.ready = 1))
  \cup (IF e.ready = 1 /\ e.shape # "ucinewgame" THEN JudgeState(e, bd) ELSE {})

JudgeReadout(e) ==
  IF ~valid \/ ~Want("C10") THEN {}
  ELSE Chk("c10.history-length", Len(e.hist) = Len(oracle.hist))
       \cup (IF Len(e.hist) = Len(oracle.hist)
             THEN Chk("c10.history", \A i \in 1..Len(e.hist) :
                        /\ e.hist[i].pos = oracle.hist[i].pos
                        /\ e.hist[i].np = oracle.hist[i].np
                        /\ MetaOf(e.hist[i].mv) = oracle.hist[i].mv)
             ELSE {})

Init == l = 1 /\ oracle = <<>> /\ valid = FALSE

Next ==
  /\ l <= Len(Tr)
  /\ LET e == Tr[l] IN
     CASE e.op = "session" -> oracle' = <<>> /\ valid' = FALSE
       [] e.op = "poscmd" ->
            LET bd == IF e.shape = "ucinewgame" THEN oracle ELSE Describe(e.line)
                f == JudgeCmd(e, bd)
            IN /\ (f # {} => PrintT("FAIL|" \o ToString(l) \o "|" \o ToString(f)))
               /\ oracle' = bd
               /\ valid' = IF e.shape = "ucinewgame" THEN FALSE ELSE TRUE
       [] e.op = "api" ->
            \* Engine.Reset / Move / TakeBack called directly; a call that must fail changes nothing
            LET can == CASE e.kind = "start" -> TRUE
                         [] e.kind = "reset" -> e.bad = 0
                         [] e.kind = "move" -> e.bad = 0 /\ B!CanPush(oracle, MoveOf(e.arg))
                         [] e.kind = "takeback" -> B!CanPop(oracle)
                bd == IF ~can THEN oracle
                      ELSE CASE e.kind = "start" -> LET d == Decode(StartFen) IN B!NewBoard(d.pos, d.np, d.fm)
                             [] e.kind = "reset" -> LET d == Decode(e.arg) IN B!NewBoard(d.pos, d.np, d.fm)
                             [] e.kind = "move" -> B!PushOp(oracle, MoveOf(e.arg))
                             [] e.kind = "takeback" -> B!PopOp(oracle)
                f == Chk("c14.engine-call-outcome", (e.err = 0) = can)
                     \cup JudgeState(e, bd)
                     \cup (IF e.kind = "takeback" /\ can THEN Chk("c14.engine-takeback-result", e.state.out = 1) ELSE {})
            IN /\ (f # {} => PrintT("FAIL|" \o ToString(l) \o "|" \o ToString(f)))
               /\ oracle' = bd
               /\ valid' = TRUE
       [] e.op = "readout" ->
            /\ LET f == JudgeReadout(e) IN f # {} => PrintT("FAIL|" \o ToString(l) \o "|" \o ToString(f))
            /\ UNCHANGED <<oracle, valid>>
       [] OTHER -> UNCHANGED <<oracle, valid>>
  /\ l' = l + 1

Spec == Init /\ [][Next]_vars
Accepted == TLCGet("stats").diameter - 1 = Len(Tr)
=============================================================================
