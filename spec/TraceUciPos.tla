---------------------------- MODULE TraceUciPos -----------------------------
(***************************************************************************)
(* Trace validation for the UCI `position' handling (C10; reported FEN of  *)
(* C14).  The oracle is built by THIS module from the text of the last     *)
(* position command alone: the start position by Fen!Decode, every move by *)
(* Board!PushOp with Chess!Legal -- i.e. "set the whole line up from       *)
(* scratch".  The engine behind the real driver must then report exactly   *)
(* that game: FEN (standard clocks), ply, clocks, last move, castled flags,*)
(* and -- read out at the end of a session by popping a fork of the        *)
(* engine's board to its root -- the same line of positions it would use   *)
(* for repetition detection.                                               *)
(***************************************************************************)
EXTENDS Fen, Json, IOUtils, TLC

CONSTANT Props
Tr == ndJsonDeserialize(IOEnv.TRACE)
VARIABLES l, oracle, valid, act
vars == <<l, oracle, valid, act>>
Chk(name, cond) == IF cond THEN {} ELSE {name}
Want(p) == p \in Props

NoMv == Mv(-1, -1, 0)
B == INSTANCE Board WITH
       GLegal <- Legal, GApply <- Apply, GTurn <- LAMBDA p : p.turn,
       GResets <- IsPawnMoveOrCapture, GIsCastle <- IsCastle,
       GInCheck <- LAMBDA p : InCheck(p.b, p.turn),
       GMayKill <- LAMBDA p, m : p.b[m.t+1] # 0 \/ m.p \in {KNIGHT, BISHOP},
       GInsufficient <- LAMBDA p : Insufficient(p.b),
       NoMove <- NoMv, NoProgressLimit <- 100

\* the engine object (Engine.tla) around the oracle board; act = what Engine.tla keeps besides the board
E == INSTANCE Engine WITH
       GLegal <- Legal, GApply <- Apply, GTurn <- LAMBDA p : p.turn,
       GResets <- IsPawnMoveOrCapture, GIsCastle <- IsCastle,
       GInCheck <- LAMBDA p : InCheck(p.b, p.turn),
       GMayKill <- LAMBDA p, m : p.b[m.t+1] # 0 \/ m.p \in {KNIGHT, BISHOP},
       GInsufficient <- LAMBDA p : Insufficient(p.b),
       NoMove <- NoMv, NoProgressLimit <- 100, HaltOnMutate <- TRUE
ActOf(s) == [k \in (DOMAIN s) \ {"bd"} |-> s[k]]
Eng(bd, a) == [k \in (DOMAIN a) \cup {"bd"} |-> IF k = "bd" THEN bd ELSE a[k]]
NoAct == ActOf(E!NewEngine(<<>>, 0, 0))

StartFen == "rnbqkbnr/pppppppp/8/8/8/8/PPPPPPPP/RNBQKBNR w KQkq - 0 1"

\* coordinate text -> move (lower-case canonical text only; the harness sends nothing else)
FileIdx(ch) == (CHOOSE f \in 1..8 : FileChars[f] = ch) - 1
RankIdx(ch) == (CHOOSE r \in 1..8 : ToString(r) = ch) - 1
PromoKind(ch) == CASE ch = "q" -> QUEEN [] ch = "r" -> ROOK [] ch = "b" -> BISHOP [] ch = "n" -> KNIGHT
MoveOf(s) == Mv(At(FileIdx(Ch(s, 1)), RankIdx(Ch(s, 2))), At(FileIdx(Ch(s, 3)), RankIdx(Ch(s, 4))),
                IF Len(s) = 5 THEN PromoKind(Ch(s, 5)) ELSE 0)

\* the non-empty tokens of a command line
Tokens(line) == SelectSeq(Fields(line), LAMBDA t : t # "")

RECURSIVE Play(_, _, _)
Play(bd, toks, i) == IF i > Len(toks) THEN bd
                     ELSE LET m == MoveOf(toks[i]) IN
                          IF B!CanPush(bd, m) THEN Play(B!PushOp(bd, m), toks, i+1)
                          ELSE [bd EXCEPT !.res = "illegal-in-oracle"]

\* the game a position command describes
Describe(line) ==
  LET t == Tokens(line) IN
  IF t[2] = "startpos"
  THEN LET d == Decode(StartFen) IN
       Play(B!NewBoard(d.pos, d.np, d.fm), IF Len(t) >= 3 THEN SubSeq(t, 4, Len(t)) ELSE <<>>, 1)
  ELSE LET d == Decode(t[3] \o " " \o t[4] \o " " \o t[5] \o " " \o t[6] \o " " \o t[7] \o " " \o t[8]) IN
       Play(B!NewBoard(d.pos, d.np, d.fm), IF Len(t) >= 9 THEN SubSeq(t, 10, Len(t)) ELSE <<>>, 1)

MetaOf(x) == IF x = <<>> THEN NoMv ELSE Mv(x[1], x[2], x[3])

JudgeState(e, bd) ==
  LET s == e.state pos == B!Cur(bd) IN
     Chk("harness.oracle-illegal-line", bd.res # "illegal-in-oracle")
  \cup (IF Want("C10") THEN
          Chk("c10.position", s.pos = pos)
     \cup Chk("c10.clocks", s.np = B!NoProgress(bd) /\ s.fm = B!FullMoves(bd))
     \cup Chk("c10.ply", s.ply = B!Ply(bd))
     \cup Chk("c10.last-move", MetaOf(s.last) = B!LastMove(bd))
     \cup Chk("c10.castled", \A c \in 0..1 : (s.castled[c+1] = 1) = B!HasCastled(bd, c))
     \cup Chk("c10.result", (s.out = 4) => B!DrawSomewhere(bd))
     \cup Chk("c10.draw-missed", (bd.fresh /\ B!DrawNow(bd)) => s.out = 4)
        ELSE {})
  \cup (IF Want("C14") THEN Chk("c14.engine-fen", s.fen = Encode(pos, B!NoProgress(bd), B!FullMoves(bd)))
                             \cup Chk("c14.engine-board-fen", s.fenb = Encode(pos, B!NoProgress(bd), B!FullMoves(bd))) ELSE {})
  \* C08: a board the engine hands out is a fork of its game, whatever an earlier holder did to his
  \cup (IF Want("C08") THEN Chk("c08.engine-board-is-a-fork", s.pos = pos /\ s.np = B!NoProgress(bd) /\ s.fm = B!FullMoves(bd) /\ s.ply = B!Ply(bd)
                                                             /\ MetaOf(s.last) = B!LastMove(bd)
                                                             /\ \A c \in 0..1 : (s.castled[c+1] = 1) = B!HasCastled(bd, c)) ELSE {})
  \* C19: a move text is accepted exactly when it denotes a legal move, and a rejected one changes nothing
  \cup (IF Want("C19") THEN Chk("c19.engine-game-state", s.pos = pos /\ s.np = B!NoProgress(bd) /\ s.fm = B!FullMoves(bd) /\ s.ply = B!Ply(bd)
                                                          /\ MetaOf(s.last) = B!LastMove(bd)) ELSE {})

JudgeCmd(e, bd) ==
     Chk("c10.driver-died", e.dead = 0)
  \cup Chk("harness.no-answer-in-time", e.dead = 1 \/ (e.sent = 1 /\ e.ready = 1))
  \cup (IF e.ready = 1 /\ e.shape # "ucinewgame" THEN JudgeState(e, bd) ELSE {})

JudgeReadout(e) ==
  IF ~valid \/ ~Want("C10") THEN {}
  ELSE Chk("c10.history-length", Len(e.hist) = Len(oracle.hist))
       \cup (IF Len(e.hist) = Len(oracle.hist)
             THEN Chk("c10.history", \A i \in 1..Len(e.hist) :
                        /\ e.hist[i].pos = oracle.hist[i].pos
                        /\ e.hist[i].np = oracle.hist[i].np
                        /\ MetaOf(e.hist[i].mv) = oracle.hist[i].mv)
             ELSE {})

Init == l = 1 /\ oracle = <<>> /\ valid = FALSE /\ act = NoAct

Next ==
  /\ l <= Len(Tr)
  /\ LET e == Tr[l] IN
     CASE e.op = "session" -> oracle' = <<>> /\ valid' = FALSE /\ act' = ActOf(E!NewEngine(<<>>, 0, e.hash))
       [] e.op = "poscmd" ->
            LET bd == IF e.shape = "ucinewgame" THEN oracle ELSE Describe(e.line)
                f == JudgeCmd(e, bd)
            IN /\ (f # {} => PrintT("FAIL|" \o ToString(l) \o "|" \o ToString(f)))
               /\ oracle' = bd
               /\ valid' = IF e.shape = "ucinewgame" THEN FALSE ELSE TRUE
               /\ UNCHANGED act
       [] e.op = "optcmd" ->
            \* setoption name Hash | Depth | Noise value n: changes the engine's options and nothing else
            LET s0 == Eng(oracle, act)
                r == CASE e.name = "Hash" -> E!SetHash(s0, e.n)
                       [] e.name = "Depth" -> E!SetDepth(s0, e.n)
                       [] e.name = "Noise" -> E!SetNoise(s0, e.n)
                f == Chk("harness.no-answer-in-time", e.dead = 1 \/ (e.sent = 1 /\ e.ready = 1))
                     \cup Chk("x.uci-driver-died-on-setoption", e.dead = 0)
                     \cup (IF e.ready = 1 THEN Chk("x.uci-option", e.opts.depth = r.s.depth /\ e.opts.hash = r.s.hash /\ e.opts.noise = r.s.noise) ELSE {})
                     \cup (IF e.ready = 1 /\ valid THEN JudgeState(e, oracle) ELSE {})
            IN /\ (f # {} => PrintT("FAIL|" \o ToString(l) \o "|" \o ToString(f)))
               /\ act' = ActOf(r.s)
               /\ UNCHANGED <<oracle, valid>>
       [] e.op = "api" ->
            \* Engine.Reset / Move / TakeBack / Analyze / Halt called directly: one Engine.tla call each
            LET s0 == Eng(oracle, act)
                r == CASE e.kind = "start" -> [s |-> E!NewEngine(LET d == Decode(StartFen) IN B!NewBoard(d.pos, d.np, d.fm), e.opts.depth, e.opts.hash), err |-> FALSE]
                       [] e.kind = "reset" -> E!Reset(s0, e.bad = 0, IF e.bad = 0 THEN LET d == Decode(e.arg) IN B!NewBoard(d.pos, d.np, d.fm) ELSE oracle)
                       [] e.kind = "move" -> E!Move(s0, e.bad = 0, IF e.bad = 0 THEN MoveOf(e.arg) ELSE NoMv)
                       [] e.kind = "takeback" -> E!TakeBack(s0)
                       [] e.kind = "analyze" -> E!Analyze(s0, e.limit)
                       [] e.kind = "halt" -> E!Halt(s0)
                       [] e.kind = "setdepth" -> E!SetDepth(s0, e.n)
                       [] e.kind = "sethash" -> E!SetHash(s0, e.n)
                board == e.kind \in {"start", "reset", "move", "takeback"}
                \* the limit an analysis runs under: the one requested (0 = explicitly none), else the engine's default
                lim == r.s.limit
                f == (IF board THEN Chk((IF Want("C19") THEN "c19" ELSE IF Want("C08") THEN "c08" ELSE "c14") \o ".engine-call-outcome", (e.err = 1) = r.err)
                               ELSE Chk("x.engine-call-outcome-" \o e.kind, (e.err = 1) = r.err))
                     \cup JudgeState(e, r.s.bd)
                     \cup (IF e.kind = "takeback" /\ ~r.err THEN Chk("c14.engine-takeback-result", e.state.out = 1) ELSE {})
                     \cup (IF e.kind = "halt" /\ ~r.err /\ e.err = 0
                           THEN Chk("x.engine-halt-line-fits", E!PVFits(r.s, MetaOf(e.first))) ELSE {})
                     \cup (IF e.kind = "analyze" /\ ~r.err /\ e.err = 0 /\ Want("C15")
                           THEN Chk("harness.analysis-neither-ended-nor-deepened", e.closed # -2)
                                \cup Chk("c15.analysis-ends-at-the-limit", lim > 0 => e.closed = lim)
                                \cup Chk("c15.analysis-without-limit-ended", lim = 0 => e.closed = -1)
                           ELSE {})
                     \cup Chk("x.engine-searches-current", E!SearchesCurrent(r.s) /\ E!NoLeak(r.s))
                     \cup Chk("x.engine-options", e.opts.depth = r.s.depth /\ e.opts.hash = r.s.hash)
                     \cup Chk("x.engine-tables-made", e.tables = -1 \/ e.tables = r.s.tables)
                     \cup (IF e.kind = "analyze" /\ ~r.err /\ e.err = 0
                           THEN Chk("x.engine-analysis-table", e.ttseen = -1 \/ e.ttseen = r.s.ttsize) ELSE {})
            IN /\ (f # {} => PrintT("FAIL|" \o ToString(l) \o "|" \o ToString(f)))
               /\ oracle' = r.s.bd
               /\ act' = ActOf(r.s)
               /\ valid' = TRUE
       [] e.op = "api-stuck" ->
            \* an engine call that never returned (the harness gave it a minute and ended the run)
            /\ PrintT("FAIL|" \o ToString(l) \o "|" \o ToString({(IF Want("C15") THEN "c15" ELSE IF Want("C19") THEN "c19" ELSE IF Want("C08") THEN "c08" ELSE "c14") \o ".engine-call-never-returns-" \o e.kind}))
            /\ UNCHANGED <<oracle, valid, act>>
       [] e.op = "readout" ->
            /\ LET f == JudgeReadout(e) IN f # {} => PrintT("FAIL|" \o ToString(l) \o "|" \o ToString(f))
            /\ UNCHANGED <<oracle, valid, act>>
       [] OTHER -> UNCHANGED <<oracle, valid, act>>
  /\ l' = l + 1

Spec == Init /\ [][Next]_vars
Accepted == TLCGet("stats").diameter - 1 = Len(Tr)
=============================================================================
