---------------------------- MODULE TraceExtras -----------------------------
(***************************************************************************)
(* Trace validation of behaviour beyond the listed properties (Extras.tla):*)
(* move ordering, selection, WriteLimited tables, opening books built from *)
(* lines.  Failures are named x..: the driver reports them as notes in the *)
(* evidence, never as violations of a listed property.                     *)
(***************************************************************************)
EXTENDS Extras, Json, IOUtils, TLC

CONSTANT Props
Tr == ndJsonDeserialize(IOEnv.TRACE)
VARIABLES l
Chk(name, cond) == IF cond THEN {} ELSE {name}
ToMv(x) == Mv(x[1], x[2], x[3])
MvSet(s) == { ToMv(s[i]) : i \in 1..Len(s) }
MaxPrio == 32767

\* popped: indices into moves, in the order the queue handed them out
JudgeMoveList(e) ==
  LET n == Len(e.moves)
      eff == [i \in 1..n |-> IF i = e.first THEN MaxPrio ELSE e.prio[i]]
  IN   Chk("x.movelist-not-a-permutation", Len(e.popped) = n /\ { e.popped[i] : i \in 1..n } = 1..n)
  \cup Chk("x.movelist-order", \A i \in 1..(Len(e.popped) - 1) : eff[e.popped[i]] >= eff[e.popped[i+1]])
  \cup Chk("x.mvvlva", \A i \in 1..n : e.prio[i] = MVVLVA(e.moves[i][4], e.moves[i][5], e.moves[i][6], e.moves[i][3]))

JudgeSort(e) ==
  LET n == Len(e.prio) IN
       Chk("x.sort-not-a-permutation", Len(e.order) = n /\ { e.order[i] : i \in 1..n } = 1..n)
  \cup Chk("x.sort-order", \A i \in 1..(n - 1) : e.prio[e.order[i]] >= e.prio[e.order[i+1]])
  \cup Chk("x.sort-not-stable", \A i \in 1..(n - 1) : e.prio[e.order[i]] = e.prio[e.order[i+1]] => e.order[i] < e.order[i+1])

JudgeSelection(e) ==
  LET k == Len(e.list) IN
       Chk("x.selection-pick", \A i \in 1..e.n : (e.picks[i] = 1) = (\E j \in 1..k : e.list[j] = i))
  \cup Chk("x.selection-rank", \A j \in 1..k : e.ranks[e.list[j]] = k - j + 1)
  \cup Chk("x.selection-rank-unlisted", \A i \in 1..e.n : (\A j \in 1..k : e.list[j] # i) => e.ranks[i] = 0)

JudgeWriteLimited(e) ==
       Chk("x.writelimited-stores-shallow", e.depth < e.min => (e.stored = 0 /\ e.readback = 0))
  \cup Chk("x.writelimited-drops-deep", e.depth >= e.min => (e.stored = 1 /\ e.readback = 1))

\* lines: sequences of moves from the start position; a probe asks the book at the position after a prefix
RECURSIVE After(_, _, _)
After(pos, line, k) == IF k = 0 THEN pos ELSE Apply(After(pos, line, k - 1), ToMv(line[k]))
JudgeBook(e) ==
  LET start == e.start
      Answers(p) == UNION { { ToMv(e.lines[i][k+1]) : k \in { kk \in 0..(Len(e.lines[i]) - 1) : After(start, e.lines[i], kk) = p } } : i \in 1..Len(e.lines) }
  IN   Chk("x.book-lines-illegal", \A i \in 1..Len(e.lines) : \A k \in 1..Len(e.lines[i]) : ToMv(e.lines[i][k]) \in Legal(After(start, e.lines[i], k - 1)))
  \cup Chk("x.book-answers", \A j \in 1..Len(e.probes) : MvSet(e.probes[j].moves) = Answers(e.probes[j].pos))
  \cup Chk("x.book-answer-duplicates", \A j \in 1..Len(e.probes) : Len(e.probes[j].moves) = Cardinality(MvSet(e.probes[j].moves)))

\* info lines of the UCI driver for a scripted search (token lists): depth first, the score as centipawns
\* or mate in moves, the node count when there is one, the line as coordinate moves
Pos1(tk, w) == IF \E i \in 1..Len(tk) : tk[i] = w THEN CHOOSE i \in 1..Len(tk) : tk[i] = w /\ \A j \in 1..(i-1) : tk[j] # w ELSE 0
JudgeInfoLine(tk, script) ==
  LET di == Pos1(tk, "depth") si == Pos1(tk, "score") ni == Pos1(tk, "nodes") pi == Pos1(tk, "pv")
      ents == { k \in 1..Len(script) : di > 0 /\ di < Len(tk) /\ ToString(script[k].depth) = tk[di+1] }
  IN IF ents = {} THEN {"x.uci-info-depth-unknown"}
     ELSE LET en == script[CHOOSE k \in ents : TRUE] IN
            Chk("x.uci-info-shape", Len(tk) >= 5 /\ tk[1] = "info" /\ di = 2 /\ si = 4)
       \cup Chk("x.uci-info-score", si > 0 /\ si + 2 <= Len(tk)
                                    /\ IF en.t = "H" THEN tk[si+1] = "cp" /\ tk[si+2] = ToString(en.cp)
                                       ELSE tk[si+1] = "mate" /\ tk[si+2] = ToString(UciMateMoves(en.t, en.m)))
       \cup Chk("x.uci-info-nodes", IF en.nodes > 0 THEN ni > 0 /\ ni < Len(tk) /\ tk[ni+1] = ToString(en.nodes) ELSE ni = 0)
       \cup Chk("x.uci-info-pv", IF en.pv = <<>> THEN pi = 0 ELSE pi > 0 /\ SubSeq(tk, pi + 1, Len(tk)) = en.pv)
JudgeInfo(e) ==
  Chk("x.uci-info-no-bestmove", e.answered)
  \cup UNION { JudgeInfoLine(e.lines[i], e.script) : i \in 1..Len(e.lines) }

Init == l = 1
Next == /\ l <= Len(Tr)
        /\ LET e == Tr[l]
               f == CASE e.op = "movelist" -> JudgeMoveList(e)
                      [] e.op = "sort" -> JudgeSort(e)
                      [] e.op = "selection" -> JudgeSelection(e)
                      [] e.op = "wl" -> JudgeWriteLimited(e)
                      [] e.op = "bookline" -> JudgeBook(e)
                      [] e.op = "uciinfo" -> JudgeInfo(e)
                      [] OTHER -> {}
           IN f # {} => PrintT("FAIL|" \o ToString(l) \o "|" \o ToString(f))
        /\ l' = l + 1
Spec == Init /\ [][Next]_l
Accepted == TLCGet("stats").diameter - 1 = Len(Tr)
=============================================================================
