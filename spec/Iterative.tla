------------------------------ MODULE Iterative ------------------------------
(***************************************************************************)
(* Iterative deepening as the search harness runs it (C15), and the time   *)
(* control limits.                                                         *)
(*                                                                         *)
(* One search goroutine: for depth 1, 2, ...: run the root search; if it   *)
(* was halted, exit; otherwise store the PV (under the handle's mutex),    *)
(* publish it on a capacity-1 "latest" channel (drain, then send), close   *)
(* `init' (first iteration done), and stop at the depth limit, at a forced *)
(* mate within the depth, or after the soft time limit.                    *)
(* Halt (any number of callers, plus the hard-limit timer): wait for       *)
(* `init', close `quit', return the stored PV.  A helper goroutine turns   *)
(* `quit' into a cancelled context, which the root search observes.        *)
(*                                                                         *)
(* MateAt: depth at which the root search first reports a forced mate      *)
(* within the depth (0 = never).  Limit: depth limit (0 = none).           *)
(*                                                                         *)
(* Two orderings the properties depend on are constants, so that TLC shows *)
(* the other order is rejected (non-vacuity):                              *)
(*   StoreFirst  the PV is stored under the mutex BEFORE it is published   *)
(*               (TRUE, the code) / after (FALSE: a Halt in between        *)
(*               returns less than what was already reported)              *)
(*   WaitInit    Halt waits for the first iteration BEFORE it closes quit  *)
(*               (TRUE, the code) / after (FALSE: depth 1 is cancelled and *)
(*               Halt returns nothing)                                     *)
(*   LockLate    Halt takes the handle mutex only to read the stored PV,   *)
(*               AFTER waiting for the first iteration (TRUE, the code) /  *)
(*               before waiting (FALSE: the search goroutine needs the     *)
(*               mutex to store depth 1 - neither ever gets on)            *)
(***************************************************************************)
EXTENDS Integers, Sequences, FiniteSets, TimeControl

CONSTANTS MaxDepth, Limit, MateAt, Callers, StoreFirst, WaitInit, LockLate

VARIABLES spc,        \* search goroutine: "run" | "store" | "publish" | "decide" | "exit"
          depth,      \* depth being searched / just searched
          hpv,        \* stored PV depth (0 = none)
          slot,       \* latest-PV channel content (0 = empty)
          stream,     \* history: depths published, in order
          init, quit, canc,
          closed,     \* PV channel closed
          hpc,        \* per caller: "idle" | "wait" | "quitting" | "done"
          ret,        \* per caller: depth returned by Halt
          seenAtCall, \* per caller: highest depth published when Halt was requested
          mu          \* the handle mutex: 0 (free) or the caller holding it (the search goroutine holds it only inside Store)

vars == <<spc, depth, hpv, slot, stream, init, quit, canc, closed, hpc, ret, seenAtCall, mu>>

Init == /\ spc = "run" /\ depth = 1 /\ hpv = 0 /\ slot = 0 /\ stream = <<>>
        /\ init = FALSE /\ quit = FALSE /\ canc = FALSE /\ closed = FALSE
        /\ hpc = [c \in Callers |-> "idle"] /\ ret = [c \in Callers |-> 0] /\ seenAtCall = [c \in Callers |-> 0] /\ mu = 0

MaxPublished == IF stream = <<>> THEN 0 ELSE stream[Len(stream)]

\* the root search of the current depth returns normally
SearchDone == /\ spc = "run" /\ ~canc /\ depth <= MaxDepth
              /\ spc' = (IF StoreFirst THEN "store" ELSE "publish")
              /\ UNCHANGED <<depth, hpv, slot, stream, init, quit, canc, closed, hpc, ret, seenAtCall, mu>>
\* ... or observes the cancelled context: the goroutine exits (deferred: close channel, close init)
SearchHalted == /\ spc = "run" /\ canc
                /\ spc' = "exit" /\ closed' = TRUE /\ init' = TRUE
                /\ UNCHANGED <<depth, hpv, slot, stream, quit, canc, hpc, ret, seenAtCall, mu>>
Store == /\ spc = "store" /\ mu = 0 /\ hpv' = depth /\ spc' = (IF StoreFirst THEN "publish" ELSE "decide")
         /\ UNCHANGED <<depth, slot, stream, init, quit, canc, closed, hpc, ret, seenAtCall, mu>>
Publish == /\ spc = "publish" /\ slot' = depth /\ stream' = Append(stream, depth) /\ init' = TRUE
           /\ spc' = (IF StoreFirst THEN "decide" ELSE "store")
           /\ UNCHANGED <<depth, hpv, quit, canc, closed, hpc, ret, seenAtCall, mu>>
Decide == /\ spc = "decide"
          /\ IF (Limit # 0 /\ depth = Limit) \/ (MateAt # 0 /\ depth >= MateAt) \/ quit
             THEN spc' = "exit" /\ closed' = TRUE /\ UNCHANGED depth
             ELSE spc' = "run" /\ depth' = depth + 1 /\ UNCHANGED closed
          /\ UNCHANGED <<hpv, slot, stream, init, quit, canc, hpc, ret, seenAtCall, mu>>
\* a consumer takes the latest PV
Consume == /\ slot # 0 /\ slot' = 0
           /\ UNCHANGED <<spc, depth, hpv, stream, init, quit, canc, closed, hpc, ret, seenAtCall, mu>>
\* the helper goroutine delivers the cancellation
CancelDeliver == /\ quit /\ ~canc /\ canc' = TRUE
                 /\ UNCHANGED <<spc, depth, hpv, slot, stream, init, quit, closed, hpc, ret, seenAtCall, mu>>

HaltCall(c) == /\ hpc[c] = "idle" /\ hpc' = [hpc EXCEPT ![c] = IF LockLate THEN "wait" ELSE "lock"]
               /\ seenAtCall' = [seenAtCall EXCEPT ![c] = MaxPublished]
               /\ UNCHANGED <<spc, depth, hpv, slot, stream, init, quit, canc, closed, ret, mu>>
\* (only with LockLate = FALSE) the mutex is taken first and held across the wait
HaltLock(c) == /\ hpc[c] = "lock" /\ mu = 0 /\ mu' = c /\ hpc' = [hpc EXCEPT ![c] = "wait"]
               /\ UNCHANGED <<spc, depth, hpv, slot, stream, init, quit, canc, closed, ret, seenAtCall>>
HaltQuit(c) == /\ hpc[c] = "wait" /\ (WaitInit => init)
               /\ quit' = TRUE /\ hpc' = [hpc EXCEPT ![c] = "quitting"]
               /\ UNCHANGED <<spc, depth, hpv, slot, stream, init, canc, closed, ret, seenAtCall, mu>>
HaltReturn(c) == /\ hpc[c] = "quitting" /\ init
                 /\ IF LockLate THEN mu = 0 /\ UNCHANGED mu ELSE mu = c /\ mu' = 0
                 /\ ret' = [ret EXCEPT ![c] = hpv] /\ hpc' = [hpc EXCEPT ![c] = "done"]
                 /\ UNCHANGED <<spc, depth, hpv, slot, stream, init, quit, canc, closed, seenAtCall>>

Next == SearchDone \/ SearchHalted \/ Store \/ Publish \/ Decide \/ Consume \/ CancelDeliver
        \/ \E c \in Callers : HaltCall(c) \/ HaltLock(c) \/ HaltQuit(c) \/ HaltReturn(c)
Spec == Init /\ [][Next]_vars
FairSpec == Spec /\ WF_vars(SearchDone \/ SearchHalted \/ Store \/ Publish \/ Decide) /\ WF_vars(CancelDeliver)
                 /\ \A c \in Callers : WF_vars(HaltLock(c) \/ HaltQuit(c) \/ HaltReturn(c))

\* depths are reported in increasing order 1, 2, 3, ...
StreamInOrder == \A i \in 1..Len(stream) : stream[i] = i
\* it ends by itself exactly at the limit or at the first forced mate within the depth
StopsWhenItShould ==
  (spc = "exit" /\ ~quit) => \/ (Limit # 0 /\ MaxPublished = Limit /\ (MateAt = 0 \/ MateAt >= Limit))
                             \/ (MateAt # 0 /\ MaxPublished = MateAt /\ (Limit = 0 \/ MateAt <= Limit))
NeverPastLimit == (Limit # 0 => MaxPublished <= Limit) /\ (MateAt # 0 => MaxPublished <= MateAt)
\* Halt never returns before depth 1 is complete ...
HaltAfterDepth1 == \A c \in Callers : hpc[c] = "done" => ret[c] >= 1
\* ... and returns a completed iteration at least as deep as every iteration reported before it was requested
HaltAtLeastReported == \A c \in Callers : hpc[c] = "done" => ret[c] >= seenAtCall[c]
\* the value returned is a fully completed (stored) iteration
HaltReturnsCompleted == \A c \in Callers : hpc[c] = "done" => ret[c] <= hpv
\* otherwise it runs until halted; a halted search exits (under fairness)
HaltedExits == quit ~> (spc = "exit")
HaltReturnsEventually == \A c \in Callers : (hpc[c] \in {"lock", "wait"}) ~> (hpc[c] = "done")

=============================================================================
