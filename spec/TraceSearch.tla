---------------------------- MODULE TraceSearch -----------------------------
(***************************************************************************)
(* Trace validation for pkg/search (C03 C11 C12 C13): game-tree dumps made *)
(* through the public board API, and what the real searches returned on    *)
(* them, are judged against the reference semantics of Search.tla.         *)
(*                                                                         *)
(*   tree     a dump; TLC computes the reference value of the root for     *)
(*            every depth once and keeps it in the state                   *)
(*   search   a real Search call (depth, window, table) and its result     *)
(*   qtree / qsearch   the same for direct quiescence calls                *)
(*   dry / cancel      a search cancelled at its n-th poll, the table      *)
(*            writes it made, and the result of the next search on that    *)
(*            table                                                        *)
(***************************************************************************)
EXTENDS Search, Json, IOUtils, TLC

CONSTANT Props
Tr == ndJsonDeserialize(IOEnv.TRACE)

\* ti / qi: index of the current tree / quiescence-tree event (the dumps stay in the trace,
\* only the reference values are carried in the state)
VARIABLES l, ti, vals, qi, qval, nodraws
vars == <<l, ti, vals, qi, qval, nodraws>>
tree == Tr[ti]
qtree == Tr[qi].root

Want(p) == p \in Props
Chk(name, cond) == IF cond THEN {} ELSE {name}
Norm(x) == [t |-> x.t, m |-> x.m, v |-> x.v]
Alpha(e) == Norm(e.a)
Beta(e) == Norm(e.b)
FullWindow(e) == Alpha(e) = Lost /\ Beta(e) = Won

\* the board is handed back in the game state it was received in; a root without legal
\* moves may have been adjudicated (lazily) as checkmate or stalemate, correctly
SameBoard(e, root) ==
  \/ e.rec0 = e.rec1
  \/ /\ root.n = 0 /\ root.d = 0
     /\ [e.rec1 EXCEPT !.out = e.rec0.out, !.reason = e.rec0.reason] = e.rec0
     /\ IF root.c = 1 THEN e.rec1.reason = "Checkmate" ELSE e.rec1.reason = "Stalemate"

\* every exact entry stored is the true value of that position at that depth
ExactWritesTrue(e) ==
  \A i \in 1..Len(e.writes) :
     LET wr == e.writes[i] IN
     \* judged where the dump carries what the reference needs: any node of a static-leaf dump down to
     \* the stored depth; the depth-0 entries of the leaves of a quiescence dump (their subtrees are dumped)
     (wr.bound = 0 /\ wr.known = 1 /\ (\/ (tree.mindepth = 0 /\ Len(wr.path) + wr.depth <= tree.depth)
                                        \/ (tree.cfg = "qs" /\ wr.depth = 0 /\ Len(wr.path) = tree.depth)))
        => LET n == NodeAt(tree.root, wr.path, 1) IN
           n.h = wr.h /\ Norm(wr.score) = MM(tree.cfg, n, wr.depth)

RECURSIVE NoDraws(_)
NoDraws(n) == n.d = 0 /\ \A i \in 1..Len(n.k) : NoDraws(n.k[i])

JudgeSearch(e) ==
  IF e.depth < tree.mindepth THEN {"harness.depth-below-dump"} ELSE
  LET r == e.res
      v == vals[e.depth + 1]
      root == tree.root
      score == Norm(r.score)
  IN
  (IF Want("C03") /\ FullWindow(e) /\ e.tt = "none" THEN
        Chk("c03.error", r.err = "")
   \cup Chk("c03.value", score = v)
   \cup Chk("c03.pv", SoundPV(tree.cfg, root, e.depth, r.pv))
   \cup Chk("c03.board", SameBoard(e, root))
   ELSE {})
  \cup
  (IF Want("C13") /\ e.tt = "none" THEN
        Chk("c13.clip", r.err = "" /\ Clip(v, Alpha(e), Beta(e), score))
   \cup Chk("c13.board", SameBoard(e, root))
   ELSE {})
  \cup
  \* C11 is stated for searches in which no history-dependent draw arises inside the tree
  (IF Want("C11") /\ e.tt = "shared" /\ tree.posdet = 1 /\ nodraws THEN
        Chk("c11.value", r.err = "" /\ score = v)
   \cup Chk("c11.pv-missing", (root.d = 0 /\ root.n > 0 /\ HasExplored(root)) => Len(r.pv) >= 1)
   \cup Chk("c11.pv-first-move", (Len(r.pv) >= 1) =>
              LET S == KidByMove(root, r.pv[1]) IN
              S # {} /\ Up(MM(tree.cfg, root.k[CHOOSE j \in S : TRUE], e.depth - 1)) = v)
   \cup Chk("c11.exact-entry", ExactWritesTrue(e))
   \cup Chk("c11.board", SameBoard(e, root))
   ELSE {})

\* a search restricted to a line (search.Context.Ponder): the dump carries the restricted explored flags,
\* so the reference value is the ordinary one. Beyond the listed properties (evidence-only, X03).
JudgePonder(e) ==
  LET r == e.res v == vals[e.depth + 1] root == tree.root IN
       Chk("x03.ponder-error", r.err = "")
  \cup Chk("x03.ponder-value", Norm(r.score) = v)
  \cup Chk("x03.ponder-pv", SoundPV(tree.cfg, root, e.depth, r.pv))
  \cup Chk("x03.ponder-board", SameBoard(e, root))

JudgeQSearch(e) ==
  IF ~Want("C13") THEN {}
  ELSE LET r == Norm(e.res) IN
          Chk("c13.q-clip", Clip(qval, Alpha(e), Beta(e), r))
     \cup Chk("c13.q-standpat", (qtree.d = 0 /\ qtree.n > 0) => ~Less(r, H(qtree.v)))
     \cup Chk("c13.q-terminal", (qtree.d = 0 /\ qtree.n = 0) => r = NoLegalMove(qtree))

JudgeCancel(e) ==
  IF ~Want("C12") THEN {}
  ELSE    Chk("c12.reports-halted", e.res.err = "halted" /\ e.res.score.t = "I" /\ e.res.pv = <<>>)
     \cup Chk("c12.board", SameBoard(e, tree.root))
     \* the next search on the same table returns what it returns on a fresh table: the same
     \* score and a principal variation that begins with a best move (true entries stored by
     \* sub-searches completed before the halt may shorten the PV tail and the node count, exactly
     \* as C11 allows for any use of the table)
     \cup Chk("c12.left-behind-score", e.next.err = "" /\ e.next.score = e.fresh.score)
     \cup Chk("c12.left-behind-pv", (Len(e.next.pv) = 0) = (Len(e.fresh.pv) = 0))
     \* ... and with the same first move: what is left behind are true values of sub-searches, which never
     \* change which root move first improves on the others (0 differences in 73 949 halts of the thorough tier)
     \cup Chk("c12.left-behind-first-move", (Len(e.next.pv) >= 1 /\ Len(e.fresh.pv) >= 1) => e.next.pv[1] = e.fresh.pv[1])
     \cup (IF tree.posdet = 1 /\ Len(e.next.pv) >= 1 /\ e.depth >= tree.mindepth
           THEN Chk("c12.left-behind-bestmove",
                    LET S == KidByMove(tree.root, e.next.pv[1]) IN
                    S # {} /\ Up(MM(tree.cfg, tree.root.k[CHOOSE j \in S : TRUE], e.depth - 1)) = vals[e.depth + 1])
           ELSE {})
     \cup (IF tree.posdet = 1 THEN Chk("c12.exact-entry", ExactWritesTrue(e)) ELSE {})

Init == l = 1 /\ ti = 0 /\ vals = <<>> /\ qi = 0 /\ qval = Lost /\ nodraws = TRUE

Next ==
  /\ l <= Len(Tr)
  /\ LET e == Tr[l] IN
     CASE e.op = "tree" ->
            /\ ti' = l
            /\ vals' = [d \in 1..(e.depth + 1) |-> IF d - 1 >= e.mindepth THEN MM(e.cfg, e.root, d - 1) ELSE Lost]
            /\ nodraws' = NoDraws(e.root)
            /\ PrintT("NOTE|tree|nodraws=" \o ToString(NoDraws(e.root)))
            /\ UNCHANGED <<qi, qval>>
       [] e.op = "qtree" ->
            /\ qi' = l /\ qval' = QMM(e.root)
            /\ UNCHANGED <<ti, vals, nodraws>>
       [] e.op = "search" ->
            /\ LET f == JudgeSearch(e) IN f # {} => PrintT("FAIL|" \o ToString(l) \o "|" \o ToString(f))
            /\ UNCHANGED <<ti, vals, qi, qval, nodraws>>
       [] e.op = "ttprobe" ->
            \* an entry is found under its own hash and under no hash that differs from it in one bit
            /\ LET f == IF Want("C11") THEN Chk("c11.lookup-misses-own-entry", e.own = 1) \cup Chk("c11.lookup-returns-entry-of-another-hash", e.other = <<>>) ELSE {}
               IN f # {} => PrintT("FAIL|" \o ToString(l) \o "|" \o ToString(f))
            /\ UNCHANGED <<ti, vals, qi, qval, nodraws>>
       [] e.op = "consolett" ->
            \* the same console session on a driver with a table and on one without: every analysis ends
            \* with the same depth and score, the move played with the table is one the table-less per-move
            \* breakdown rates best, and the breakdowns agree
            /\ LET n == Len(e.off)
                   Lines(a) == { a.lines[j] : j \in 1..Len(a.lines) }
                   f == IF ~Want("C11") THEN {}
                        ELSE Chk("harness.console-session-incomplete", e.trouble = "" /\ Len(e.on) = n)
                             \cup (IF e.trouble = "" /\ Len(e.on) = n
                                   THEN Chk("c11.console-root-score", \A i \in 1..n : e.on[i].final = e.off[i].final)
                                        \cup Chk("c11.console-bestmove-not-best", \A i \in 1..n :
                                                 \E j \in 1..Len(e.off[i].lines) : /\ e.off[i].lines[j][1] = e.on[i].best
                                                                                     /\ e.off[i].lines[j][2] = e.off[i].lines[1][2])
                                        \cup Chk("c11.console-breakdown", \A i \in 1..n : Lines(e.on[i]) = Lines(e.off[i]))
                                   ELSE {})
               IN f # {} => PrintT("FAIL|" \o ToString(l) \o "|" \o ToString(f))
            /\ UNCHANGED <<ti, vals, qi, qval, nodraws>>
       [] e.op = "psearch" ->
            /\ LET f == JudgePonder(e) IN f # {} => PrintT("FAIL|" \o ToString(l) \o "|" \o ToString(f))
            /\ UNCHANGED <<ti, vals, qi, qval, nodraws>>
       [] e.op = "qsearch" ->
            /\ LET f == JudgeQSearch(e) IN f # {} => PrintT("FAIL|" \o ToString(l) \o "|" \o ToString(f))
            /\ UNCHANGED <<ti, vals, qi, qval, nodraws>>
       [] e.op = "cancel" ->
            /\ LET f == JudgeCancel(e) IN f # {} => PrintT("FAIL|" \o ToString(l) \o "|" \o ToString(f))
            /\ (\E i \in 1..Len(e.writes) : e.writes[i].bound # 0) => PrintT("NOTE|cancel-nonexact-write")
            /\ UNCHANGED <<ti, vals, qi, qval, nodraws>>
       [] OTHER -> UNCHANGED <<ti, vals, qi, qval, nodraws>>
  /\ l' = l + 1

Spec == Init /\ [][Next]_vars
Accepted == TLCGet("stats").diameter - 1 = Len(Tr)
=============================================================================
