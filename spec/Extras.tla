------------------------------- MODULE Extras -------------------------------
(***************************************************************************)
(* Behaviour of morlock beyond the twenty listed properties (specification *)
(* growth).  Validated on recorded events by TraceExtras; a disagreement   *)
(* here is reported in the evidence of the check that runs it as an        *)
(* "extra" note, never as a violation of a listed property.                *)
(*                                                                         *)
(*  - move ordering: the priority queue hands out every move exactly once  *)
(*    in non-increasing priority order; First(m, f) puts m first; MVV-LVA  *)
(*    priority = 100 * nominal gain - nominal value of the mover when the  *)
(*    gain is positive, else 0; Selection(list) ranks by list position and *)
(*    picks exactly the listed moves; SortByPriority is a stable sort      *)
(*  - WriteLimited tables: a store below the minimum depth is dropped,     *)
(*    everything else is passed through                                    *)
(*  - opening books built from lines: every answer is a move of some line  *)
(*    at that position, and every line move is an answer                   *)
(*  - search restricted to a ponder line: the value is the reference value *)
(*    of the tree in which only the ponder moves are explored along the    *)
(*    line (Search!MM over explored flags, judged by TraceSearch)          *)
(***************************************************************************)
EXTENDS Chess, Sequences

\* nominal values in pawns (bishop = knight = 3, king 100)
Nominal(k) == CASE k = PAWN -> 1 [] k = KNIGHT -> 3 [] k = BISHOP -> 3 [] k = ROOK -> 5 [] k = QUEEN -> 9 [] k = KING -> 100 [] OTHER -> 0

\* nominal material gain of a move given its kind, captured piece and promotion piece
Gain(kind, cap, promo) ==
  CASE kind = KCapturePromotion -> Nominal(cap) + Nominal(promo) - 1
    [] kind = KPromotion -> Nominal(promo) - 1
    [] kind = KCapture -> Nominal(cap)
    [] kind = KEnPassant -> 1
    [] OTHER -> 0

MVVLVA(kind, piece, cap, promo) ==
  LET g == 100 * Gain(kind, cap, promo) IN IF g > 0 THEN g - Nominal(piece) ELSE 0

\* the score of a UCI info line for a decided score: mate in MOVES (plies rounded up), negative when the
\* side to move is being mated, 0 when the game is already over (t: "M" with m plies, "W" won, "L" lost)
UciMateMoves(t, m) ==
  LET x == CASE t = "W" -> 1 [] t = "L" -> -1 [] OTHER -> IF m > 0 THEN m + 1 ELSE m - 1
  IN IF x >= 0 THEN x \div 2 ELSE 0 - ((0 - x) \div 2)

\* a sequence `out' is the sequence `in' handed out by priority: a permutation, priorities non-increasing
IsPermutation(in, out) ==
  /\ Len(in) = Len(out)
  /\ \A i \in 1..Len(in) : Cardinality({ j \in 1..Len(in) : in[j] = in[i] }) = Cardinality({ j \in 1..Len(out) : out[j] = in[i] })
NonIncreasing(ps) == \A i \in 1..(Len(ps) - 1) : ps[i] >= ps[i+1]
\* stable: equal priorities keep their relative input order (items must be distinct)
StableOrder(in, prio, out) ==
  \A i, j \in 1..Len(out) : (i < j /\ prio[out[i]] = prio[out[j]]) =>
      (CHOOSE a \in 1..Len(in) : in[a] = out[i]) < (CHOOSE b \in 1..Len(in) : in[b] = out[j])
=============================================================================
