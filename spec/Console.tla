------------------------------ MODULE Console ------------------------------
(***************************************************************************)
(* The console driver (pkg/engine/console/console.go) - specification      *)
(* growth beyond the twenty listed properties, which anchor only the UCI   *)
(* driver.  Same engine, same iterative search, a simpler protocol:        *)
(*                                                                         *)
(*   loop     reads a line: a move / reset / undo (ensureInactive, change  *)
(*            the game, print the board), analyze [depth] (ensureInactive, *)
(*            Engine.Analyze, active := TRUE, spawn a forwarder), halt     *)
(*            (Engine.Halt; if it FAILED, searchCompleted with an empty    *)
(*            PV), quit / EOF (ensureInactive, return: the deferred        *)
(*            close(out) runs)                                             *)
(*   fwd k    for pv := range ch { out <- pv }; searchCompleted(last):     *)
(*            CompareAndSwap(active, TRUE, FALSE), then "bestmove" and the *)
(*            per-move breakdown are sent on out                           *)
(*                                                                         *)
(* `active' is a BOOLEAN, the output channel is closed as soon as the loop *)
(* returns, and nobody waits for the forwarders: the code has the three    *)
(* deviations that Uci.tla names IdGuard / ShutdownWaits and that the UCI  *)
(* driver was repaired for.  Fixed = FALSE is the code; Fixed = TRUE is    *)
(* the same repair transplanted (per-search id in `active', wait for the   *)
(* forwarders before closing).  TLC: the three properties below hold with  *)
(* Fixed = TRUE and each has a counterexample with Fixed = FALSE.          *)
(***************************************************************************)
EXTENDS Integers, Sequences, FiniteSets, TLC

CONSTANTS MaxCmds, NS, MaxDepth, Fixed

K == 1..NS
Cmds == {"move", "an_d", "an_inf", "halt", "quit"}

VARIABLES lpc, lcmd, ncmd, nsearch,
          active,      \* 0 = FALSE; otherwise TRUE (1) or, with Fixed, the id of the awaited search
          eact,        \* engine: active search handle (0 = none)
          S, F, outClosed, panic,
          best,        \* "bestmove" lines per search
          lost,        \* completions won with an empty PV (the loop's searchCompleted after a failed Halt)
          bestSeq,     \* <<search whose result is reported, search awaited at that moment, superseded?>>
          cur, haltOk, superseded, game   \* game: number of game changes so far; S[k].game the game searched

vars == <<lpc, lcmd, ncmd, nsearch, active, eact, S, F, outClosed, panic, best, lost, bestSeq, cur, haltOk, superseded, game>>

NoSearch == [st |-> "none", iters |-> 0, init |-> FALSE, quit |-> FALSE, canc |-> FALSE,
             slot |-> 0, closed |-> FALSE, lim |-> 0, game |-> 0]
NoFwd == [pc |-> "none", last |-> 0]

Init == /\ lpc = "select" /\ lcmd = "none" /\ ncmd = 0 /\ nsearch = 0 /\ active = 0 /\ eact = 0
        /\ S = [k \in K |-> NoSearch] /\ F = [k \in K |-> NoFwd]
        /\ outClosed = FALSE /\ panic = FALSE /\ best = [k \in K |-> 0] /\ lost = 0 /\ bestSeq = <<>>
        /\ cur = 0 /\ haltOk = FALSE /\ superseded = {} /\ game = 0

Token(k) == IF Fixed THEN k ELSE 1
\* a send on the output channel by a goroutine other than the loop
SendOk == IF outClosed THEN panic' = TRUE ELSE panic' = panic

ReadCmd ==
  /\ lpc = "select" /\ ncmd < MaxCmds
  /\ \E c \in Cmds :
       /\ (c \in {"an_d", "an_inf"} => nsearch < NS)
       /\ ncmd' = ncmd + 1 /\ lcmd' = c
       /\ lpc' = IF c = "halt" THEN "halt" ELSE "off"
  /\ UNCHANGED <<nsearch, active, eact, S, F, outClosed, panic, best, lost, bestSeq, cur, haltOk, superseded, game>>

ActiveOff ==
  /\ lpc = "off" /\ active' = 0 /\ lpc' = "halt"
  /\ superseded' = IF cur # 0 THEN superseded \cup {cur} ELSE superseded
  /\ UNCHANGED <<lcmd, ncmd, nsearch, eact, S, F, outClosed, panic, best, lost, bestSeq, cur, haltOk, game>>

EngineHalt ==
  /\ lpc = "halt"
  /\ IF eact = 0 THEN haltOk' = FALSE /\ UNCHANGED <<S, eact>>
     ELSE /\ S[eact].init /\ S' = [S EXCEPT ![eact].quit = TRUE] /\ eact' = 0 /\ haltOk' = TRUE
  /\ lpc' = CASE lcmd = "move" -> "change"
              [] lcmd \in {"an_d", "an_inf"} -> "analyze"
              [] lcmd = "halt" -> "haltdone"
              [] lcmd = "quit" -> (IF Fixed THEN "waitfwd" ELSE "close")
  /\ UNCHANGED <<lcmd, ncmd, nsearch, active, F, outClosed, panic, best, lost, bestSeq, cur, superseded, game>>

\* the game changes (move / reset / undo) and the board is printed
Change ==
  /\ lpc = "change" /\ game' = game + 1 /\ lpc' = "select"
  /\ UNCHANGED <<lcmd, ncmd, nsearch, active, eact, S, F, outClosed, panic, best, lost, bestSeq, cur, haltOk, superseded>>

\* halt: `if err != nil { searchCompleted(empty pv) }' - the loop competes for the completion with an empty PV
HaltDone ==
  /\ lpc = "haltdone"
  /\ IF ~haltOk /\ active # 0 /\ ~Fixed
       THEN active' = 0 /\ lost' = lost + 1      \* wins the CAS: no bestmove line, "Search, depth=0"
       ELSE UNCHANGED <<active, lost>>
  /\ lpc' = "select"
  /\ UNCHANGED <<lcmd, ncmd, nsearch, eact, S, F, outClosed, panic, best, bestSeq, cur, haltOk, superseded, game>>

Analyze ==
  /\ lpc = "analyze"
  /\ LET k == nsearch + 1 IN
       /\ nsearch' = k /\ eact' = k /\ cur' = k
       /\ S' = [S EXCEPT ![k] = [NoSearch EXCEPT !.st = "run", !.lim = (IF lcmd = "an_d" THEN MaxDepth ELSE 0), !.game = game]]
  /\ lpc' = "activate"
  /\ UNCHANGED <<lcmd, ncmd, active, F, outClosed, panic, best, lost, bestSeq, haltOk, superseded, game>>

Activate ==
  /\ lpc = "activate" /\ active' = Token(cur) /\ lpc' = "spawn"
  /\ UNCHANGED <<lcmd, ncmd, nsearch, eact, S, F, outClosed, panic, best, lost, bestSeq, cur, haltOk, superseded, game>>

Spawn ==
  /\ lpc = "spawn" /\ F' = [F EXCEPT ![cur].pc = "recv"] /\ lpc' = "select"
  /\ UNCHANGED <<lcmd, ncmd, nsearch, active, eact, S, outClosed, panic, best, lost, bestSeq, cur, haltOk, superseded, game>>

WaitForwarders ==
  /\ lpc = "waitfwd" /\ \A k \in K : F[k].pc \in {"none", "exit"}
  /\ lpc' = "close"
  /\ UNCHANGED <<lcmd, ncmd, nsearch, active, eact, S, F, outClosed, panic, best, lost, bestSeq, cur, haltOk, superseded, game>>

CloseOut ==
  /\ lpc = "close" /\ outClosed' = TRUE /\ lpc' = "exited"
  /\ UNCHANGED <<lcmd, ncmd, nsearch, active, eact, S, F, panic, best, lost, bestSeq, cur, haltOk, superseded, game>>

\* ---------------- search goroutine k (as in Uci.tla) ----------------
IterFinish(k) ==
  /\ S[k].st = "run" /\ ~S[k].canc /\ S[k].iters < MaxDepth
  /\ LET d == S[k].iters + 1 IN
       S' = [S EXCEPT ![k].iters = d, ![k].slot = d, ![k].init = TRUE,
                      ![k].st = IF (S[k].lim # 0 /\ d = S[k].lim) \/ S[k].quit THEN "closing" ELSE "run"]
  /\ UNCHANGED <<lpc, lcmd, ncmd, nsearch, active, eact, F, outClosed, panic, best, lost, bestSeq, cur, haltOk, superseded, game>>
SeeCancel(k) ==
  /\ S[k].st = "run" /\ S[k].canc /\ S' = [S EXCEPT ![k].st = "closing"]
  /\ UNCHANGED <<lpc, lcmd, ncmd, nsearch, active, eact, F, outClosed, panic, best, lost, bestSeq, cur, haltOk, superseded, game>>
CancelDeliver(k) ==
  /\ S[k].quit /\ ~S[k].canc /\ S[k].st # "none" /\ S' = [S EXCEPT ![k].canc = TRUE]
  /\ UNCHANGED <<lpc, lcmd, ncmd, nsearch, active, eact, F, outClosed, panic, best, lost, bestSeq, cur, haltOk, superseded, game>>
SearchExit(k) ==
  /\ S[k].st = "closing" /\ S' = [S EXCEPT ![k].st = "exit", ![k].closed = TRUE, ![k].init = TRUE]
  /\ UNCHANGED <<lpc, lcmd, ncmd, nsearch, active, eact, F, outClosed, panic, best, lost, bestSeq, cur, haltOk, superseded, game>>

\* ---------------- forwarder goroutine k ----------------
FwdRecv(k) ==
  /\ F[k].pc = "recv"
  /\ \/ /\ S[k].slot # 0 /\ F' = [F EXCEPT ![k].last = S[k].slot, ![k].pc = "line"] /\ S' = [S EXCEPT ![k].slot = 0]
     \/ /\ S[k].slot = 0 /\ S[k].closed /\ F' = [F EXCEPT ![k].pc = "cas"] /\ UNCHANGED S
  /\ UNCHANGED <<lpc, lcmd, ncmd, nsearch, active, eact, outClosed, panic, best, lost, bestSeq, cur, haltOk, superseded, game>>
\* d.out <- pv.String()
FwdLine(k) ==
  /\ F[k].pc = "line" /\ SendOk /\ F' = [F EXCEPT ![k].pc = "recv"]
  /\ UNCHANGED <<lpc, lcmd, ncmd, nsearch, active, eact, S, outClosed, best, lost, bestSeq, cur, haltOk, superseded, game>>
FwdCas(k) ==
  /\ F[k].pc = "cas"
  /\ IF active = Token(k) /\ active # 0
       THEN /\ active' = 0 /\ F' = [F EXCEPT ![k].pc = "send"]
            /\ bestSeq' = Append(bestSeq, <<k, cur, S[k].game # game>>)
       ELSE UNCHANGED <<active, bestSeq>> /\ F' = [F EXCEPT ![k].pc = "exit"]
  /\ UNCHANGED <<lpc, lcmd, ncmd, nsearch, eact, S, outClosed, panic, best, lost, cur, haltOk, superseded, game>>
FwdSend(k) ==
  /\ F[k].pc = "send" /\ SendOk
  /\ best' = IF outClosed \/ F[k].last = 0 THEN best ELSE [best EXCEPT ![k] = @ + 1]
  /\ F' = [F EXCEPT ![k].pc = "exit"]
  /\ UNCHANGED <<lpc, lcmd, ncmd, nsearch, active, eact, S, outClosed, lost, bestSeq, cur, haltOk, superseded, game>>

Done == lpc = "exited" \/ (lpc = "select" /\ ncmd = MaxCmds)
Idle == Done /\ UNCHANGED vars

Next == ReadCmd \/ ActiveOff \/ EngineHalt \/ Change \/ HaltDone \/ Analyze \/ Activate \/ Spawn \/ WaitForwarders \/ CloseOut
        \/ (\E k \in K : IterFinish(k) \/ SeeCancel(k) \/ CancelDeliver(k) \/ SearchExit(k)
                        \/ FwdRecv(k) \/ FwdLine(k) \/ FwdCas(k) \/ FwdSend(k))
        \/ Idle
Spec == Init /\ [][Next]_vars
Fairness == /\ WF_vars(ActiveOff \/ EngineHalt \/ Change \/ HaltDone \/ Analyze \/ Activate \/ Spawn \/ WaitForwarders \/ CloseOut)
            /\ \A k \in K : WF_vars(IterFinish(k) \/ SeeCancel(k) \/ CancelDeliver(k) \/ SearchExit(k))
            /\ \A k \in K : WF_vars(FwdRecv(k) \/ FwdLine(k) \/ FwdCas(k) \/ FwdSend(k))
FairSpec == Spec /\ Fairness

(* ------------------------------ properties ----------------------------- *)
\* no forwarder ever sends on the closed output channel (a Go panic that kills the process)
NoPanic == ~panic
\* a bestmove is reported only for the analysis the user is waiting for, and for the game it searched
NoStaleBest == \A i \in 1..Len(bestSeq) : bestSeq[i][1] = bestSeq[i][2] /\ ~bestSeq[i][3]
\* the loop never takes the completion away from the forwarder with an empty result
NoLostAnswer == lost = 0
\* liveness: an analysis that ends (depth limit or halt) and is not superseded gets its bestmove
Answered == \A k \in K : (S[k].st = "exit" /\ k \notin superseded /\ lpc # "exited")
                            ~> (best[k] = 1 \/ k \in superseded \/ lpc = "exited" \/ lost > 0)
LoopReturns == (lpc # "select") ~> (lpc \in {"select", "exited"})
View == <<lpc, lcmd, ncmd, nsearch, active, eact, S, F, outClosed, panic, best, lost, cur, haltOk, superseded, game,
          {i \in 1..Len(bestSeq) : bestSeq[i][1] # bestSeq[i][2] \/ bestSeq[i][3]}>>
=============================================================================
