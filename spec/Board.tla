------------------------------- MODULE Board -------------------------------
(***************************************************************************)
(* The game board: a line of positions from set-up, with clocks, results,  *)
(* take-back and fork (C05, C07, C08, C14).                                *)
(*                                                                         *)
(* The module is parametric in the game: the same text is model-checked    *)
(* exhaustively over a small abstract game (MCBoard) and instantiated with *)
(* the rules of chess (Chess.tla) for trace validation (TraceBoard).       *)
(*                                                                         *)
(* One action per public call of the implementation:                       *)
(*   New, Push (legal), PushRefused (illegal: nothing changes), Pop, Fork, *)
(*   Adjudicate (no legal move: checkmate or stalemate).                   *)
(***************************************************************************)
EXTENDS Integers, Sequences, FiniteSets

CONSTANTS
  GLegal(_),        \* position -> set of legal moves
  GApply(_, _),     \* position, move -> position
  GTurn(_),         \* position -> 0 (White) | 1 (Black)
  GResets(_, _),    \* position, move -> the move is a pawn move or a capture (fifty-move clock restarts)
  GIsCastle(_, _),  \* position, move -> the move is a castling move
  GInCheck(_),      \* position -> side to move is in check
  GMayKill(_, _),   \* position, move -> the move is a capture or an under-promotion (can leave dead material)
  GInsufficient(_), \* position -> neither side can ever mate
  NoMove,           \* placeholder for "no move led here"
  NoProgressLimit   \* half-moves without pawn move or capture that make a draw (100 in chess)

(* A board value.  hist is the WHOLE line from set-up (a fork starts as a  *)
(* copy of its parent's line and remembers the fork point in base).        *)
(* fresh: the last operation on this board was a Push, i.e. its current    *)
(* position has "just been reached by a move" (C05 speaks about that       *)
(* moment only; after a take-back the result is merely "not drawn").       *)
Entry(pos, np, mv) == [pos |-> pos, np |-> np, mv |-> mv]

NewBoard(pos, np, fm) ==
  [hist |-> <<Entry(pos, np, NoMove)>>, base |-> 1, fm0 |-> fm, res |-> "open", fresh |-> FALSE]

Len0(bd) == Len(bd.hist)
Cur(bd) == bd.hist[Len(bd.hist)].pos
NoProgress(bd) == bd.hist[Len(bd.hist)].np
Ply(bd) == Len(bd.hist)
Turn(bd) == GTurn(Cur(bd))
\* full-move number: the set-up number plus one for every Black move played
FullMoves(bd) == bd.fm0 + Cardinality({ i \in 2..Len(bd.hist) : GTurn(bd.hist[i-1].pos) = 1 })
HasCastled(bd, c) == \E i \in 2..Len(bd.hist) :
                        GTurn(bd.hist[i-1].pos) = c /\ GIsCastle(bd.hist[i-1].pos, bd.hist[i].mv)
LastMove(bd) == IF Len(bd.hist) > 1 THEN bd.hist[Len(bd.hist)].mv ELSE NoMove
SecondToLastMove(bd) == IF Len(bd.hist) > 2 THEN bd.hist[Len(bd.hist)-1].mv ELSE NoMove

\* how often the position at index i has occurred in the line up to and including i
\* (position identity = whatever the game says a position is: placement, side to move,
\* castling rights and en-passant target for chess).  The set-up position counts.
OccurrencesAt(bd, i) == Cardinality({ k \in 1..i : bd.hist[k].pos = bd.hist[i].pos })
Occurrences(bd) == OccurrencesAt(bd, Len(bd.hist))

\* the draw conditions of C05, evaluated for the move that produced index i (i >= 2)
RepetitionAt(bd, i)   == OccurrencesAt(bd, i) >= 3
FiftyAt(bd, i)        == bd.hist[i].np >= NoProgressLimit
DeadAt(bd, i)         == GMayKill(bd.hist[i-1].pos, bd.hist[i].mv) /\ GInsufficient(bd.hist[i].pos)
DrawNowAt(bd, i)      == RepetitionAt(bd, i) \/ FiftyAt(bd, i) \/ DeadAt(bd, i)
DrawNow(bd)           == Len(bd.hist) >= 2 /\ DrawNowAt(bd, Len(bd.hist))
\* some move of the current line (set-up excluded) produced a drawn position
DrawSomewhere(bd)     == \E i \in 2..Len(bd.hist) : DrawNowAt(bd, i)

(* ---------------------------- the actions ------------------------------ *)

CanPush(bd, m) == bd.res \notin {"mate", "stalemate"} /\ m \in GLegal(Cur(bd))

PushOp(bd, m) ==
  LET p  == Cur(bd)
      np == IF GResets(p, m) THEN 0 ELSE NoProgress(bd) + 1
      b1 == [bd EXCEPT !.hist = Append(@, Entry(GApply(p, m), np, m))]
  IN [b1 EXCEPT !.res = IF DrawNow(b1) \/ bd.res = "draw" THEN "draw" ELSE "open", !.fresh = TRUE]

\* a take-back never goes below the set-up position; going below the fork point of a
\* live fork is outside the contract (the caller must not), so it is not an action here.
CanPop(bd) == Len(bd.hist) > 1
PopOp(bd) == [bd EXCEPT !.hist = SubSeq(@, 1, Len(@) - 1), !.res = "open", !.fresh = FALSE]

ForkOp(bd) == [bd EXCEPT !.base = Len(bd.hist), !.fresh = FALSE]

CanAdjudicate(bd) == GLegal(Cur(bd)) = {}
AdjudicateOp(bd) == [bd EXCEPT !.res = IF GInCheck(Cur(bd)) THEN "mate" ELSE "stalemate", !.fresh = FALSE]

(* -------------------- what a board reports (C08) ----------------------- *)
\* everything observable except the result
Obs(bd) == [pos |-> Cur(bd), np |-> NoProgress(bd), ply |-> Ply(bd), fm |-> FullMoves(bd),
            castled |-> <<HasCastled(bd, 0), HasCastled(bd, 1)>>,
            last |-> LastMove(bd), last2 |-> SecondToLastMove(bd), occ |-> Occurrences(bd)]
=============================================================================
