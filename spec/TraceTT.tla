------------------------------ MODULE TraceTT -------------------------------
(***************************************************************************)
(* Trace validation for the concurrent transposition table (C17).          *)
(* A history of overlapping Read / Write calls recorded from the real      *)
(* table (invocation and response events in real-time order) must be       *)
(* LINEARIZABLE to the sequential table:                                   *)
(*    Write(h, ..) stores iff NOT val(current entry of the slot) > val(new)*)
(*                 and then the slot holds exactly the new tuple;          *)
(*    Read(h)      returns the slot's tuple iff the slot holds hash h.     *)
(* The linearization points are not logged; the specification keeps the    *)
(* SET of all configurations (table contents + results of the pending      *)
(* calls already linearized) consistent with the events so far; a response *)
(* no configuration explains is a failure.  This makes the trace spec      *)
(* deterministic: one state per event.                                     *)
(***************************************************************************)
EXTENDS Integers, Sequences, FiniteSets, Json, IOUtils, TLC

CONSTANT Props
Tr == ndJsonDeserialize(IOEnv.TRACE)

VARIABLES l, nslots, calls, configs
vars == <<l, nslots, calls, configs>>

Chk(name, cond) == IF cond THEN {} ELSE {name}
Nil == [h |-> -1, val |-> 0, tup |-> <<>>]
Tuple(e) == <<e.bound, e.depth, [t |-> e.score.t, m |-> e.score.m, v |-> e.score.v], e.mv>>
\* replacement value of an entry: ply + 2 * depth
Val(e) == e.ply + 2 * e.depth
SlotOf(h) == h % nslots

\* the sequential table: effect and result of call c on table tab
SeqApply(tab, c) ==
  LET s == SlotOf(c.h) IN
  IF c.call = "w"
  THEN IF tab[s].val > Val(c)
       THEN [tab |-> tab, res |-> <<0, <<>> >>]
       ELSE [tab |-> [tab EXCEPT ![s] = [h |-> c.h, val |-> Val(c), tup |-> Tuple(c)]], res |-> <<1, <<>> >>]
  ELSE IF tab[s].h = c.h THEN [tab |-> tab, res |-> <<1, tab[s].tup>>]
       ELSE [tab |-> tab, res |-> <<0, <<>> >>]

Pending == DOMAIN calls
Linearized(cfg) == { x[1] : x \in cfg.lin }
Step1(S) == S \cup { LET a == SeqApply(cfg.tab, calls[id]) IN [tab |-> a.tab, lin |-> cfg.lin \cup {<<id, a.res>>}]
                     : cfg \in S, id \in Pending }
\* (a call already linearized in cfg is skipped)
Step(S) == S \cup UNION { { LET a == SeqApply(cfg.tab, calls[id]) IN [tab |-> a.tab, lin |-> cfg.lin \cup {<<id, a.res>>}]
                            : id \in Pending \ Linearized(cfg) } : cfg \in S }
RECURSIVE Close(_)
Close(S) == LET T == Step(S) IN IF T = S THEN S ELSE Close(T)

RespResult(e) == IF e.ok = 1 /\ calls[e.id].call = "r" THEN <<1, Tuple(e)>> ELSE <<e.ok, <<>> >>
Drop(cfg, id) == [cfg EXCEPT !.lin = { x \in cfg.lin : x[1] # id }]

Init == l = 1 /\ nslots = 1 /\ calls = <<>> /\ configs = {}

Next ==
  /\ l <= Len(Tr)
  /\ LET e == Tr[l] IN
     CASE e.op = "ttreset" ->
            /\ nslots' = e.slots /\ calls' = <<>>
            /\ configs' = { [tab |-> [s \in 0..(e.slots - 1) |-> Nil], lin |-> {}] }
       [] e.op = "inv" ->
            /\ calls' = calls @@ (e.id :> e)
            /\ UNCHANGED <<nslots, configs>>
       [] e.op = "resp" ->
            LET C == Close(configs)
                ok == { cfg \in C : <<e.id, RespResult(e)>> \in cfg.lin }
                f == Chk("c17.not-linearizable", ok # {})
            IN /\ (f # {} => PrintT("FAIL|" \o ToString(l) \o "|" \o ToString(f)))
               /\ configs' = { Drop(cfg, e.id) : cfg \in (IF ok # {} THEN ok ELSE { c \in C : e.id \in Linearized(c) }) }
               /\ calls' = [i \in (DOMAIN calls) \ {e.id} |-> calls[i]]
               /\ UNCHANGED nslots
       [] e.op = "engine-tables" ->
            \* every table an engine handed to its searches, read when all searches have gone: the fill
            \* count is the number of occupied slots (TT!UsedExact at quiescence)
            LET f == Chk("c17.used-range", \A i \in 1..Len(e.tables) : e.tables[i].frac1000 >= 0 /\ e.tables[i].frac1000 <= 1000)
                     \cup Chk("c17.used-count-engine-table", \A i \in 1..Len(e.tables) : e.tables[i].counted = e.tables[i].occupied)
            IN /\ (f # {} => PrintT("FAIL|" \o ToString(l) \o "|" \o ToString(f)))
               /\ UNCHANGED <<nslots, calls, configs>>
       [] e.op = "used" ->
            LET f == Chk("harness.pending-at-quiescence", Pending = {})
                     \cup Chk("c17.used-range", e.frac1000 >= 0 /\ e.frac1000 <= 1000)
                     \cup Chk("c17.used-count", \A cfg \in configs : e.used = Cardinality({ s \in DOMAIN cfg.tab : cfg.tab[s] # Nil }))
            IN /\ (f # {} => PrintT("FAIL|" \o ToString(l) \o "|" \o ToString(f)))
               /\ UNCHANGED <<nslots, calls, configs>>
  /\ l' = l + 1

Spec == Init /\ [][Next]_vars
Accepted == TLCGet("stats").diameter - 1 = Len(Tr)
=============================================================================
