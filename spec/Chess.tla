------------------------------- MODULE Chess -------------------------------
(***************************************************************************)
(* The rules of chess, from board geometry.  No bitboards, no lookup       *)
(* tables copied from the implementation: every set below is computed by   *)
(* walking files, ranks and diagonals of an 8x8 grid.                      *)
(*                                                                         *)
(* Squares are numbered rank*8+file with file a = 0 (a1 = 0, h1 = 7,       *)
(* a8 = 56) -- deliberately NOT the implementation's H1 = 0 numbering.     *)
(* A board is a sequence of 64 piece codes, index sq+1:                    *)
(*   0 empty, 1..6 white P N B R Q K, 7..12 black P N B R Q K.             *)
(* A position is [b, turn, cr, ep]: turn 0 = White, cr a 4-bit set         *)
(* (1 K, 2 Q, 4 k, 8 q), ep the en-passant target square or -1.            *)
(***************************************************************************)
EXTENDS Integers, Sequences, FiniteSets

Sq == 0..63
File(s) == s % 8
Rank(s) == s \div 8
At(f, r) == r*8 + f
OnBoard(f, r) == f \in 0..7 /\ r \in 0..7

PAWN == 1  KNIGHT == 2  BISHOP == 3  ROOK == 4  QUEEN == 5  KING == 6
Color(pc) == IF pc = 0 THEN 2 ELSE IF pc <= 6 THEN 0 ELSE 1
KindOf(pc) == IF pc <= 6 THEN pc ELSE pc - 6
Mk(c, k) == k + 6*c
Opp(c) == 1 - c

\* directions 1..4 are rook lines, 5..8 bishop lines
Dirs == << <<1,0>>, <<-1,0>>, <<0,1>>, <<0,-1>>, <<1,1>>, <<1,-1>>, <<-1,1>>, <<-1,-1>> >>

RECURSIVE RayFrom(_,_,_,_)
RayFrom(f, r, df, dr) == IF OnBoard(f+df, r+dr) THEN <<At(f+df, r+dr)>> \o RayFrom(f+df, r+dr, df, dr) ELSE <<>>

Ray == [s \in Sq |-> [d \in 1..8 |-> RayFrom(File(s), Rank(s), Dirs[d][1], Dirs[d][2])]]

KnightD == { <<1,2>>, <<2,1>>, <<-1,2>>, <<-2,1>>, <<1,-2>>, <<2,-1>>, <<-1,-2>>, <<-2,-1>> }
KingD == { <<1,0>>, <<-1,0>>, <<0,1>>, <<0,-1>>, <<1,1>>, <<1,-1>>, <<-1,1>>, <<-1,-1>> }
Steps(s, D) == { At(File(s)+d[1], Rank(s)+d[2]) : d \in { e \in D : OnBoard(File(s)+e[1], Rank(s)+e[2]) } }
KnightT == [s \in Sq |-> Steps(s, KnightD)]
KingT == [s \in Sq |-> Steps(s, KingD)]
\* squares from which a pawn of colour c attacks s
PawnAttFrom == [c \in 0..1 |-> [s \in Sq |-> Steps(s, IF c = 0 THEN {<<1,-1>>, <<-1,-1>>} ELSE {<<1,1>>, <<-1,1>>})]]
\* squares a pawn of colour c on s attacks
PawnAttTo == [c \in 0..1 |-> [s \in Sq |-> Steps(s, IF c = 0 THEN {<<1,1>>, <<-1,1>>} ELSE {<<1,-1>>, <<-1,-1>>})]]

RECURSIVE FirstOcc(_,_,_)
FirstOcc(b, ray, i) == IF i > Len(ray) THEN i ELSE IF b[ray[i]+1] # 0 THEN i ELSE FirstOcc(b, ray, i+1)

(***************************************************************************)
(* The attack relation (C06): the squares a piece of kind k standing on s  *)
(* attacks when the occupied squares are those of board b.  Sliders stop   *)
(* at and include the first occupied square.                               *)
(***************************************************************************)
RayReach(b, ray) == LET i == FirstOcc(b, ray, 1) IN { ray[j] : j \in 1..(IF i > Len(ray) THEN Len(ray) ELSE i) }
Attacks(b, s, k) ==
  CASE k = KNIGHT -> KnightT[s]
    [] k = KING   -> KingT[s]
    [] k = ROOK   -> UNION { RayReach(b, Ray[s][d]) : d \in 1..4 }
    [] k = BISHOP -> UNION { RayReach(b, Ray[s][d]) : d \in 5..8 }
    [] k = QUEEN  -> UNION { RayReach(b, Ray[s][d]) : d \in 1..8 }

\* occupancy given as a set of squares -> a board of anonymous blockers
OccBoard(occ) == [i \in 1..64 |-> IF (i-1) \in occ THEN 1 ELSE 0]

SliderHits(b, s, c) ==
  \E d \in 1..8 : LET ray == Ray[s][d]
                      i == FirstOcc(b, ray, 1)
                  IN i <= Len(ray) /\ LET pc == b[ray[i]+1] IN
                        pc = Mk(c, QUEEN) \/ pc = Mk(c, IF d <= 4 THEN ROOK ELSE BISHOP)

\* is square s attacked by a piece of colour c (en passant not included)
Attacked(b, s, c) ==
  \/ \E t \in PawnAttFrom[c][s] : b[t+1] = Mk(c, PAWN)
  \/ \E t \in KnightT[s] : b[t+1] = Mk(c, KNIGHT)
  \/ \E t \in KingT[s] : b[t+1] = Mk(c, KING)
  \/ SliderHits(b, s, c)

\* the squares of colour-c pieces that attack s (for "which pieces can capture here")
Attackers(b, s, c) ==
  { t \in Sq : /\ Color(b[t+1]) = c
               /\ IF KindOf(b[t+1]) = PAWN THEN s \in PawnAttTo[c][t]
                  ELSE s \in Attacks(b, t, KindOf(b[t+1])) }

KingSquares(b, c) == { s \in Sq : b[s+1] = Mk(c, KING) }
HasKing(b, c) == KingSquares(b, c) # {}
KingSq(b, c) == CHOOSE s \in Sq : b[s+1] = Mk(c, KING)
InCheck(b, c) == HasKing(b, c) /\ Attacked(b, KingSq(b, c), Opp(c))

RayTargets(b, c, ray) ==
  LET i == FirstOcc(b, ray, 1)
  IN { ray[j] : j \in 1..(i-1) } \cup (IF i <= Len(ray) /\ Color(b[ray[i]+1]) # c THEN {ray[i]} ELSE {})

SliderTargets(b, c, s, ds) == UNION { RayTargets(b, c, Ray[s][d]) : d \in ds }

Mv(f, t, p) == [f |-> f, t |-> t, p |-> p]
PromoKinds == {KNIGHT, BISHOP, ROOK, QUEEN}

PawnMoves(pos, s) ==
  LET b == pos.b  c == pos.turn
      dr == IF c = 0 THEN 1 ELSE -1
      startR == IF c = 0 THEN 1 ELSE 6
      lastR == IF c = 0 THEN 7 ELSE 0
      one == s + 8*dr
      pushes == IF one \in Sq /\ b[one+1] = 0
                THEN {one} \cup (IF Rank(s) = startR /\ b[one + 8*dr + 1] = 0 THEN {one + 8*dr} ELSE {})
                ELSE {}
      caps == { t \in PawnAttTo[c][s] : (b[t+1] # 0 /\ Color(b[t+1]) = Opp(c)) \/ (t = pos.ep /\ b[t+1] = 0) }
      ts == pushes \cup caps
  IN UNION { IF Rank(t) = lastR THEN { Mv(s, t, k) : k \in PromoKinds } ELSE { Mv(s, t, 0) } : t \in ts }

\* castling rights: 4-bit int, 1=K 2=Q 4=k 8=q
HasRight(cr, bit) == (cr \div bit) % 2 = 1

CastleMoves(pos) ==
  LET b == pos.b  c == pos.turn
      r == IF c = 0 THEN 0 ELSE 7
      e == At(4, r)
      ok(bit, empties, safe, rookSq) ==
          /\ HasRight(pos.cr, bit)
          /\ b[e+1] = Mk(c, KING) /\ b[rookSq+1] = Mk(c, ROOK)
          /\ \A x \in empties : b[x+1] = 0
          /\ \A x \in safe : ~Attacked(b, x, Opp(c))
  IN (IF ok(IF c = 0 THEN 1 ELSE 4, {At(5,r), At(6,r)}, {At(4,r), At(5,r), At(6,r)}, At(7,r)) THEN {Mv(e, At(6,r), 0)} ELSE {})
     \cup
     (IF ok(IF c = 0 THEN 2 ELSE 8, {At(1,r), At(2,r), At(3,r)}, {At(4,r), At(3,r), At(2,r)}, At(0,r)) THEN {Mv(e, At(2,r), 0)} ELSE {})

PieceMoves(pos, s) ==
  LET b == pos.b  c == pos.turn  k == KindOf(b[s+1])
      free(T) == { t \in T : Color(b[t+1]) # c }
  IN CASE k = PAWN -> PawnMoves(pos, s)
       [] k = KNIGHT -> { Mv(s, t, 0) : t \in free(KnightT[s]) }
       [] k = KING -> { Mv(s, t, 0) : t \in free(KingT[s]) }
       [] k = ROOK -> { Mv(s, t, 0) : t \in SliderTargets(b, c, s, 1..4) }
       [] k = BISHOP -> { Mv(s, t, 0) : t \in SliderTargets(b, c, s, 5..8) }
       [] k = QUEEN -> { Mv(s, t, 0) : t \in SliderTargets(b, c, s, 1..8) }

IsCastle(pos, m) == KindOf(pos.b[m.f+1]) = KING /\ (m.t - m.f = 2 \/ m.f - m.t = 2)
IsEP(pos, m) == KindOf(pos.b[m.f+1]) = PAWN /\ m.t = pos.ep /\ File(m.f) # File(m.t) /\ pos.b[m.t+1] = 0
IsDouble(pos, m) == KindOf(pos.b[m.f+1]) = PAWN /\ (m.t - m.f = 16 \/ m.f - m.t = 16)

\* rights that cannot survive a piece leaving, or arriving on, square s
RightsLost(s) == CASE s = 4 -> 3 [] s = 0 -> 2 [] s = 7 -> 1 [] s = 60 -> 12 [] s = 56 -> 8 [] s = 63 -> 4 [] OTHER -> 0
\* remove bits of l from cr
Strip(cr, l) == LET bitoff(x, bit) == IF HasRight(l, bit) /\ HasRight(x, bit) THEN x - bit ELSE x
                IN bitoff(bitoff(bitoff(bitoff(cr, 1), 2), 4), 8)

Apply(pos, m) ==
  LET b == pos.b  c == pos.turn  pc == b[m.f+1]
      placed == IF m.p # 0 THEN Mk(c, m.p) ELSE pc
      b1 == [b EXCEPT ![m.f+1] = 0, ![m.t+1] = placed]
      b2 == IF IsEP(pos, m) THEN [b1 EXCEPT ![At(File(m.t), Rank(m.f))+1] = 0]
            ELSE IF IsCastle(pos, m)
                 THEN IF m.t > m.f THEN [b1 EXCEPT ![m.f+3+1] = 0, ![m.f+1+1] = Mk(c, ROOK)]
                                   ELSE [b1 EXCEPT ![m.f-4+1] = 0, ![m.f-1+1] = Mk(c, ROOK)]
                 ELSE b1
  IN [b |-> b2, turn |-> Opp(c),
      cr |-> Strip(Strip(pos.cr, RightsLost(m.f)), RightsLost(m.t)),
      ep |-> IF IsDouble(pos, m) THEN (m.f + m.t) \div 2 ELSE -1]

Pseudo(pos) == UNION { PieceMoves(pos, s) : s \in { x \in Sq : Color(pos.b[x+1]) = pos.turn } } \cup CastleMoves(pos)

\* a pseudo-legal move is legal iff it does not leave the mover's own king attacked
Legal(pos) ==
  IF ~HasKing(pos.b, pos.turn) THEN Pseudo(pos)
  ELSE LET ks == KingSq(pos.b, pos.turn) IN
       { m \in Pseudo(pos) : ~Attacked(Apply(pos, m).b, IF m.f = ks THEN m.t ELSE ks, Opp(pos.turn)) }

(***************************************************************************)
(* What a move "really does" (the metadata C01 asks for).  The numbering   *)
(* of kinds is the implementation's public MoveType enumeration.           *)
(***************************************************************************)
KNormal == 1 KPush == 2 KJump == 3 KEnPassant == 4 KQueenSideCastle == 5 KKingSideCastle == 6
KCapture == 7 KPromotion == 8 KCapturePromotion == 9

Mover(pos, m) == KindOf(pos.b[m.f+1])
\* captured piece kind; 0 if none.  An en-passant capture removes a pawn that is not on
\* the destination square; by the documented convention it reports no captured piece.
Captured(pos, m) == KindOf(pos.b[m.t+1])
MoveKind(pos, m) ==
  LET k == Mover(pos, m) cap == pos.b[m.t+1] # 0 IN
  IF k = PAWN THEN
       IF m.p # 0 THEN (IF cap THEN KCapturePromotion ELSE KPromotion)
       ELSE IF IsEP(pos, m) THEN KEnPassant
       ELSE IF cap THEN KCapture
       ELSE IF IsDouble(pos, m) THEN KJump ELSE KPush
  ELSE IF IsCastle(pos, m) THEN (IF m.t > m.f THEN KKingSideCastle ELSE KQueenSideCastle)
  ELSE IF cap THEN KCapture ELSE KNormal

\* reversible in the sense of the fifty-move rule: no pawn move, no capture
IsPawnMoveOrCapture(pos, m) == Mover(pos, m) = PAWN \/ pos.b[m.t+1] # 0

IsMate(pos) == InCheck(pos.b, pos.turn) /\ Legal(pos) = {}
IsStalemate(pos) == ~InCheck(pos.b, pos.turn) /\ Legal(pos) = {}

Count(b, pc) == Cardinality({ s \in Sq : b[s+1] = pc })
Pieces(b) == { s \in Sq : b[s+1] # 0 }
SqColor(s) == (File(s) + Rank(s)) % 2
\* K v K, K+minor v K, or kings and exactly two bishops standing on same-coloured squares
Insufficient(b) ==
  LET n == Cardinality(Pieces(b))
      minors == { s \in Sq : KindOf(b[s+1]) \in {KNIGHT, BISHOP} /\ b[s+1] # 0 }
      bishops == { s \in Sq : KindOf(b[s+1]) = BISHOP /\ b[s+1] # 0 }
  IN \/ n = 2
     \/ n = 3 /\ Cardinality(minors) = 1
     \/ n = 4 /\ Cardinality(bishops) = 2 /\ Cardinality({ SqColor(s) : s \in bishops }) = 1

(***************************************************************************)
(* Well-formed positions: the domain the properties quantify over.         *)
(***************************************************************************)
WellFormed(pos) ==
  LET b == pos.b c == pos.turn IN
  /\ Cardinality(KingSquares(b, 0)) = 1 /\ Cardinality(KingSquares(b, 1)) = 1
  /\ ~InCheck(b, Opp(c))
  /\ \A s \in Sq : KindOf(b[s+1]) = PAWN /\ b[s+1] # 0 => Rank(s) \in 1..6
  /\ (HasRight(pos.cr, 1) => b[4+1] = Mk(0, KING) /\ b[7+1] = Mk(0, ROOK))
  /\ (HasRight(pos.cr, 2) => b[4+1] = Mk(0, KING) /\ b[0+1] = Mk(0, ROOK))
  /\ (HasRight(pos.cr, 4) => b[60+1] = Mk(1, KING) /\ b[63+1] = Mk(1, ROOK))
  /\ (HasRight(pos.cr, 8) => b[60+1] = Mk(1, KING) /\ b[56+1] = Mk(1, ROOK))
  /\ pos.ep # -1 =>
       /\ Rank(pos.ep) = (IF c = 0 THEN 5 ELSE 2)
       /\ b[pos.ep+1] = 0
       /\ b[(IF c = 0 THEN pos.ep - 8 ELSE pos.ep + 8)+1] = Mk(Opp(c), PAWN)
       /\ b[(IF c = 0 THEN pos.ep + 8 ELSE pos.ep - 8)+1] = 0

(***************************************************************************)
(* Colour mirror: flip ranks, swap colours, swap side and rights.          *)
(***************************************************************************)
MirrorSq(s) == At(File(s), 7 - Rank(s))
MirrorPc(pc) == IF pc = 0 THEN 0 ELSE IF pc <= 6 THEN pc + 6 ELSE pc - 6
MirrorCr(cr) == (cr % 4) * 4 + (cr \div 4)
Mirror(pos) == [b |-> [i \in 1..64 |-> MirrorPc(pos.b[MirrorSq(i-1)+1])],
                turn |-> Opp(pos.turn), cr |-> MirrorCr(pos.cr),
                ep |-> IF pos.ep = -1 THEN -1 ELSE MirrorSq(pos.ep)]
MirrorMv(m) == Mv(MirrorSq(m.f), MirrorSq(m.t), m.p)

(***************************************************************************)
(* Pins: pieces of `side' that stand alone between an enemy slider and a   *)
(* `side' piece of kind target on a line the slider moves along.           *)
(* Result: set of <<attacker square, pinned square, target square>>.       *)
(***************************************************************************)
Pins(b, side, target) ==
  UNION { UNION { LET ray == Ray[ts][d]
                      i == FirstOcc(b, ray, 1)
                  IN IF i <= Len(ray) /\ Color(b[ray[i]+1]) = side
                     THEN LET j == FirstOcc(b, ray, i+1) IN
                          IF j <= Len(ray) /\ Color(b[ray[j]+1]) = Opp(side)
                             /\ KindOf(b[ray[j]+1]) \in {QUEEN, IF d <= 4 THEN ROOK ELSE BISHOP}
                          THEN { <<ray[j], ray[i], ts>> } ELSE {}
                     ELSE {}
                : d \in 1..8 }
          : ts \in { s \in Sq : b[s+1] = Mk(side, target) } }

(***************************************************************************)
(* Perft: the number of leaf nodes of the legal-move tree.  Used only to   *)
(* anchor this module to published node counts (no code involved).         *)
(***************************************************************************)
RECURSIVE Perft(_,_)
Perft(pos, d) == IF d = 0 THEN 1
                 ELSE LET L == Legal(pos) IN
                      IF d = 1 THEN Cardinality(L)
                      ELSE LET RECURSIVE Sum(_)
                               Sum(S) == IF S = {} THEN 0
                                         ELSE LET m == CHOOSE x \in S : TRUE
                                              IN Perft(Apply(pos, m), d-1) + Sum(S \ {m})
                           IN Sum(L)
=============================================================================
