------------------------------ MODULE MCScore ------------------------------
(***************************************************************************)
(* The laws of C09 as theorems of Score.tla, evaluated exhaustively by TLC *)
(* over all mate distances |k| <= K and a set of heuristic keys that       *)
(* includes the images of +-MaxFloat32, +-smallest subnormal and 0.        *)
(* Triples (transitivity) are enumerated for |k| <= KT.                    *)
(***************************************************************************)
EXTENDS Score, TLC

CONSTANTS K, KT

Keys == {-2139095039, -1065353216, -1036831949, -1, 0, 1, 1036831949, 1065353216, 2139095039}
Dom(k) == {Lost, Won} \cup { Mate(i) : i \in (-k..k) \ {0} } \cup { H(x) : x \in Keys }
D == Dom(K)
DT == Dom(KT)

Irreflexive == \A a \in D : ~Less(a, a)
Total == \A a, b \in D : a # b => (Less(a, b) \/ Less(b, a)) /\ ~(Less(a, b) /\ Less(b, a))
Transitive == \A a, b, c \in DT : Less(a, b) /\ Less(b, c) => Less(a, c)
NegInvolution == \A a \in D : Neg(Neg(a)) = a
NegReverses == \A a, b \in D : Less(a, b) <=> Less(Neg(b), Neg(a))
\* Inc is defined on |k| < K here (the implementation stores the distance in an int8)
IncMonotone == \A a, b \in Dom(K - 1) : Less(a, b) <=> Less(Inc(a), Inc(b))
IncKeepsClassOrder == \A a \in Dom(K - 1) : a.t = "H" => Inc(a) = a
DecInverts == \A a \in Dom(K - 1) : Dec(Inc(a)) = a
DecMonotone == \A a, b \in D : Less(a, b) => ~Less(Dec(b), Dec(a))
MaxMin == \A a, b \in D : /\ Max(a, b) \in {a, b} /\ Min(a, b) \in {a, b}
                          /\ ~Less(Max(a, b), a) /\ ~Less(Max(a, b), b)
                          /\ ~Less(a, Min(a, b)) /\ ~Less(b, Min(a, b))
Chain == /\ Less(Lost, Mate(-1)) /\ Less(Mate(-1), Mate(-2)) /\ Less(Mate(-K), H(-2139095039))
         /\ Less(H(2139095039), Mate(K)) /\ Less(Mate(2), Mate(1)) /\ Less(Mate(1), Won)

ASSUME Irreflexive
ASSUME Total
ASSUME Transitive
ASSUME NegInvolution
ASSUME NegReverses
ASSUME IncMonotone
ASSUME IncKeepsClassOrder
ASSUME DecInverts
ASSUME DecMonotone
ASSUME MaxMin
ASSUME Chain

\* a one-variable behaviour that walks the order from Lost to Won via Inc/Neg (gives TLC a
\* state space: every score of the domain is a state)
VARIABLE s
Init == s \in D
Next == s' \in {Neg(s)} \cup (IF s \in Dom(K - 1) THEN {Inc(s)} ELSE {})
Spec == Init /\ [][Next]_s
Closed == s \in D
=============================================================================
