-------------------------------- MODULE Uci --------------------------------
(***************************************************************************)
(* The concurrent shell of the engine: the UCI command loop, the engine's  *)
(* active-search handle, one iterative-deepening search goroutine and one  *)
(* result-forwarding goroutine per `go', the movetime timer, and the       *)
(* output channel (C04, C16; the iterative part also serves C15).          *)
(*                                                                         *)
(* Structured like the code: one action per critical section.              *)
(*   loop      ReadCmd; ActiveOff + EngineHalt (= ensureInactive);         *)
(*             Analyze; Activate; Spawn; StopDone (+ completion); Shutdown *)
(*   search k  IterFinish (publish a depth; init closes after the first),  *)
(*             CancelDeliver (helper goroutine turns quit into a cancelled *)
(*             context), SeeCancel, SearchExit (closes the PV channel)     *)
(*   fwd k     FwdRecv (receive a PV or see the channel closed), FwdPonder,*)
(*             FwdCas (the completion compare-and-swap), FwdSend           *)
(*   timer     TimerFire (Engine.Halt from the movetime timer)             *)
(*                                                                         *)
(* The places where the code first deviated from the intended design are   *)
(* constants, so that TLC shows both that the intended design satisfies    *)
(* the properties and that each deviation is rejected (non-vacuity):       *)
(*   IdGuard        completion CAS compares the search id (TRUE) or a      *)
(*                  boolean "someone is waiting" flag (FALSE)              *)
(*   StopOnOk       stop completes when Halt succeeded (TRUE) / failed     *)
(*   ShutdownWaits  quit/EOF halt the search and wait for the forwarders   *)
(*                  before closing the output channel (TRUE) / close at    *)
(*                  once (FALSE)                                           *)
(*   TimerInLoop    an expired movetime is reported to the loop, which     *)
(*                  halts the search only if it is still the awaited one   *)
(*                  (TRUE) / the timer goroutine halts whatever search is  *)
(*                  active when it fires (FALSE)                           *)
(*   AtomicClaim    a completion claims the answer by compare-and-swap     *)
(*                  (TRUE) / test, answer, then clear (FALSE)              *)
(***************************************************************************)
EXTENDS Integers, Sequences, FiniteSets, TLC

CONSTANTS MaxCmds, NS, MaxDepth, IdGuard, StopOnOk, ShutdownWaits, TimerInLoop,
          AtomicClaim, \* the completion claims the answer with one compare-and-swap (TRUE) / tests the flag, answers, and
                       \* clears the flag afterwards (FALSE: two completers can both answer)
          OutCap     \* capacity of the output channel (lines the GUI has not read yet); 0 = sends never block

K == 1..NS
Cmds == {"isready", "pos", "go_d", "go_inf", "go_mt", "stop", "quit", "eof"}

VARIABLES lpc,       \* loop program counter
          lcmd,      \* command being processed
          ncmd,      \* commands consumed
          nsearch,   \* searches launched
          active,    \* 0, or the id of the search the user waits for (TRUE/FALSE folded: id or 1)
          eact,      \* engine: active search handle (0 = none)
          S, F,      \* per search / per forwarder state
          pond,      \* items in the ponder channel
          outClosed, panic,
          best,      \* bestmove lines emitted per search
          bestSeq,   \* history: <<search, cur at that moment>> for every bestmove
          ready, asked, cur, haltOk,
          timer,     \* search id a movetime timer is armed for (0 = none)
          tmq,       \* expired movetime waiting to be read by the loop (search id, 0 = none)
          superseded, \* searches whose go has been superseded by a later position/go
          stopped,   \* searches that were told to stop while the user was waiting for them
          outq       \* lines in the output channel that the GUI has not read yet

vars == <<lpc, lcmd, ncmd, nsearch, active, eact, S, F, pond, outClosed, panic, best, bestSeq, ready, asked, cur, haltOk, timer, tmq, superseded, stopped, outq>>

NoSearch == [st |-> "none", iters |-> 0, init |-> FALSE, quit |-> FALSE, canc |-> FALSE,
             slot |-> 0, closed |-> FALSE, hpv |-> 0, lim |-> 0, inf |-> FALSE]
NoFwd == [pc |-> "none", last |-> 0]

Init == /\ lpc = "select" /\ lcmd = "none" /\ ncmd = 0 /\ nsearch = 0
        /\ active = 0 /\ eact = 0
        /\ S = [k \in K |-> NoSearch] /\ F = [k \in K |-> NoFwd]
        /\ pond = 0 /\ outClosed = FALSE /\ panic = FALSE
        /\ best = [k \in K |-> 0] /\ bestSeq = <<>> /\ ready = 0 /\ asked = 0 /\ cur = 0 /\ haltOk = FALSE
        /\ timer = 0 /\ tmq = 0 /\ superseded = {} /\ stopped = {} /\ outq = 0

\* room in the output channel / one more line in it
CanSend == OutCap = 0 \/ outq < OutCap
Put == outq' = IF OutCap = 0 THEN outq ELSE outq + 1
\* a send of "bestmove" for search k on the output channel
Send(k) == IF outClosed THEN /\ panic' = TRUE /\ UNCHANGED <<best, outq>>
           ELSE /\ CanSend /\ Put /\ panic' = panic /\ best' = [best EXCEPT ![k] = @ + 1]
\* the decision to answer (the completion compare-and-swap won by search k's result)
Decide(k) == bestSeq' = Append(bestSeq, <<k, cur, k \in superseded, stopped>>)

Token(k) == IF IdGuard THEN k ELSE 1

\* ---------------- command loop ----------------
ReadCmd ==
  /\ lpc = "select" /\ ncmd < MaxCmds
  /\ \E c \in Cmds :
       /\ (c \in {"go_d", "go_inf", "go_mt"} => nsearch < NS)
       /\ ncmd' = ncmd + 1 /\ lcmd' = c
       /\ CASE c = "isready" -> /\ lpc' = "readyok" /\ ready' = ready /\ asked' = asked + 1
            [] c = "pos" -> lpc' = "off" /\ UNCHANGED <<ready, asked>>
            [] c \in {"go_d", "go_inf", "go_mt"} -> lpc' = "off" /\ UNCHANGED <<ready, asked>>
            [] c = "stop" -> lpc' = "halt" /\ UNCHANGED <<ready, asked>>
            [] c \in {"quit", "eof"} -> lpc' = (IF ShutdownWaits THEN "off" ELSE "close") /\ UNCHANGED <<ready, asked>>
       /\ stopped' = IF c = "stop" /\ cur # 0 /\ active = Token(cur) THEN stopped \cup {cur} ELSE stopped
  /\ UNCHANGED <<nsearch, active, eact, S, F, pond, outClosed, panic, best, bestSeq, cur, haltOk, timer, tmq, superseded, outq>>

\* isready is answered by a (blocking) send on the output channel
SendReadyOk ==
  /\ lpc = "readyok" /\ CanSend /\ Put
  /\ ready' = ready + 1 /\ lpc' = "select"
  /\ UNCHANGED <<lcmd, ncmd, nsearch, active, eact, S, F, pond, outClosed, panic, best, bestSeq, asked, cur, haltOk, timer, tmq, superseded, stopped>>

ReadPonder ==
  /\ lpc = "select" /\ pond > 0
  /\ pond' = pond - 1 /\ lpc' = "info"
  /\ UNCHANGED <<lcmd, ncmd, nsearch, active, eact, S, F, outClosed, panic, best, bestSeq, ready, asked, cur, haltOk, timer, tmq, superseded, stopped, outq>>

\* ... and written to the output channel as an info line (blocking)
SendInfo ==
  /\ lpc = "info" /\ CanSend /\ Put /\ lpc' = "select"
  /\ UNCHANGED <<lcmd, ncmd, nsearch, active, eact, S, F, pond, outClosed, panic, best, bestSeq, ready, asked, cur, haltOk, timer, tmq, superseded, stopped>>

\* the GUI reads a line
GuiRead ==
  /\ outq > 0 /\ outq' = outq - 1
  /\ UNCHANGED <<lpc, lcmd, ncmd, nsearch, active, eact, S, F, pond, outClosed, panic, best, bestSeq, ready, asked, cur, haltOk, timer, tmq, superseded, stopped>>

\* ensureInactive step 1: nobody is waited for any more; a pending go is superseded
ActiveOff ==
  /\ lpc = "off" /\ active' = 0 /\ lpc' = "halt"
  /\ superseded' = IF cur # 0 THEN superseded \cup {cur} ELSE superseded
  /\ UNCHANGED <<lcmd, ncmd, nsearch, eact, S, F, pond, outClosed, panic, best, bestSeq, ready, asked, cur, haltOk, timer, tmq, stopped, outq>>

\* Engine.Halt: waits until the active search (if any) has completed its first iteration
EngineHalt ==
  /\ lpc = "halt"
  /\ IF eact = 0
       THEN /\ haltOk' = FALSE /\ UNCHANGED <<S, eact>>
       ELSE /\ S[eact].init
            /\ S' = [S EXCEPT ![eact].quit = TRUE]
            /\ eact' = 0 /\ haltOk' = TRUE
  /\ lpc' = CASE lcmd = "pos" -> "select"
              [] lcmd \in {"go_d", "go_inf", "go_mt"} -> "analyze"
              [] lcmd = "stop" -> "stopdone"
              [] lcmd = "timeout" -> "select"
              [] lcmd \in {"quit", "eof"} -> "waitfwd"
  /\ UNCHANGED <<lcmd, ncmd, nsearch, active, F, pond, outClosed, panic, best, bestSeq, ready, asked, cur, timer, tmq, superseded, stopped, outq>>

StopDone ==
  /\ lpc = "stopdone"
  /\ IF haltOk = StopOnOk /\ active = Token(cur) /\ cur # 0
       THEN active' = (IF AtomicClaim THEN 0 ELSE active) /\ lpc' = "stopsend" /\ Decide(cur)
       ELSE lpc' = "select" /\ UNCHANGED <<active, bestSeq>>
  /\ UNCHANGED <<lcmd, ncmd, nsearch, eact, S, F, pond, outClosed, panic, best, ready, asked, cur, haltOk, timer, tmq, superseded, stopped, outq>>

StopSend ==
  /\ lpc = "stopsend" /\ Send(cur) /\ lpc' = "select"
  /\ active' = (IF AtomicClaim THEN active ELSE 0)      \* the late clear of the non-atomic claim
  /\ UNCHANGED <<lcmd, ncmd, nsearch, eact, S, F, pond, outClosed, bestSeq, ready, asked, cur, haltOk, timer, tmq, superseded, stopped>>

Analyze ==
  /\ lpc = "analyze"
  /\ LET k == nsearch + 1 IN
       /\ nsearch' = k /\ eact' = k /\ cur' = k
       /\ S' = [S EXCEPT ![k] = [NoSearch EXCEPT !.st = "run", !.lim = (IF lcmd = "go_d" THEN MaxDepth ELSE 0), !.inf = (lcmd = "go_inf")]]
       /\ timer' = IF lcmd = "go_mt" THEN k ELSE timer
  /\ lpc' = "activate"
  /\ UNCHANGED <<lcmd, ncmd, active, F, pond, outClosed, panic, best, bestSeq, ready, asked, haltOk, tmq, superseded, stopped, outq>>

Activate ==
  /\ lpc = "activate" /\ active' = Token(cur) /\ lpc' = "spawn"
  /\ UNCHANGED <<lcmd, ncmd, nsearch, eact, S, F, pond, outClosed, panic, best, bestSeq, ready, asked, cur, haltOk, timer, tmq, superseded, stopped, outq>>

Spawn ==
  /\ lpc = "spawn" /\ F' = [F EXCEPT ![cur].pc = "recv"] /\ lpc' = "select"
  /\ UNCHANGED <<lcmd, ncmd, nsearch, active, eact, S, pond, outClosed, panic, best, bestSeq, ready, asked, cur, haltOk, timer, tmq, superseded, stopped, outq>>

\* shutdown: while waiting for the forwarders the loop keeps draining the ponder channel
\* (a forwarder blocked on a full channel could otherwise never finish)
ShutdownDrain ==
  /\ lpc = "waitfwd" /\ pond > 0
  /\ pond' = pond - 1
  /\ UNCHANGED <<lpc, lcmd, ncmd, nsearch, active, eact, S, F, outClosed, panic, best, bestSeq, ready, asked, cur, haltOk, timer, tmq, superseded, stopped, outq>>

\* shutdown: wait for every forwarder that was spawned, then close the output channel
WaitForwarders ==
  /\ lpc = "waitfwd"
  /\ \A k \in K : F[k].pc \in {"none", "exit"}
  /\ lpc' = "close"
  /\ UNCHANGED <<lcmd, ncmd, nsearch, active, eact, S, F, pond, outClosed, panic, best, bestSeq, ready, asked, cur, haltOk, timer, tmq, superseded, stopped, outq>>

CloseOut ==
  /\ lpc = "close" /\ outClosed' = TRUE /\ lpc' = "exited"
  /\ UNCHANGED <<lcmd, ncmd, nsearch, active, eact, S, F, pond, panic, best, bestSeq, ready, asked, cur, haltOk, timer, tmq, superseded, stopped, outq>>

\* the movetime timer fires
TimerFire ==
  /\ timer # 0
  /\ IF TimerInLoop
     THEN /\ tmq = 0 /\ tmq' = timer /\ UNCHANGED <<S, eact>>      \* report to the loop (capacity-1 channel)
     ELSE /\ UNCHANGED tmq                                           \* Engine.Halt from the timer goroutine
          /\ IF eact = 0 THEN UNCHANGED <<S, eact>>
             ELSE /\ S[eact].init /\ S' = [S EXCEPT ![eact].quit = TRUE] /\ eact' = 0
  /\ timer' = 0
  /\ UNCHANGED <<lpc, lcmd, ncmd, nsearch, active, F, pond, outClosed, panic, best, bestSeq, ready, asked, cur, haltOk, superseded, stopped, outq>>

\* the loop reads an expired movetime: halt only if that search is still the awaited one
ReadTimeout ==
  /\ lpc = "select" /\ tmq # 0
  /\ tmq' = 0
  /\ IF active = Token(tmq) /\ active # 0 THEN lpc' = "halt" /\ lcmd' = "timeout" ELSE UNCHANGED <<lpc, lcmd, outq>>
  /\ UNCHANGED <<ncmd, nsearch, active, eact, S, F, pond, outClosed, panic, best, bestSeq, ready, asked, cur, haltOk, timer, superseded, stopped, outq>>

\* ---------------- search goroutine k ----------------
IterFinish(k) ==
  /\ S[k].st = "run" /\ ~S[k].canc /\ S[k].iters < MaxDepth
  /\ LET d == S[k].iters + 1 IN
       S' = [S EXCEPT ![k].iters = d, ![k].hpv = d, ![k].slot = d, ![k].init = TRUE,
                      ![k].st = IF (S[k].lim # 0 /\ d = S[k].lim) \/ S[k].quit THEN "closing" ELSE "run"]
  /\ UNCHANGED <<lpc, lcmd, ncmd, nsearch, active, eact, F, pond, outClosed, panic, best, bestSeq, ready, asked, cur, haltOk, timer, tmq, superseded, stopped, outq>>

SeeCancel(k) ==
  /\ S[k].st = "run" /\ S[k].canc
  /\ S' = [S EXCEPT ![k].st = "closing"]
  /\ UNCHANGED <<lpc, lcmd, ncmd, nsearch, active, eact, F, pond, outClosed, panic, best, bestSeq, ready, asked, cur, haltOk, timer, tmq, superseded, stopped, outq>>

CancelDeliver(k) ==
  /\ S[k].quit /\ ~S[k].canc /\ S[k].st # "none"
  /\ S' = [S EXCEPT ![k].canc = TRUE]
  /\ UNCHANGED <<lpc, lcmd, ncmd, nsearch, active, eact, F, pond, outClosed, panic, best, bestSeq, ready, asked, cur, haltOk, timer, tmq, superseded, stopped, outq>>

SearchExit(k) ==
  /\ S[k].st = "closing"
  /\ S' = [S EXCEPT ![k].st = "exit", ![k].closed = TRUE, ![k].init = TRUE]
  /\ UNCHANGED <<lpc, lcmd, ncmd, nsearch, active, eact, F, pond, outClosed, panic, best, bestSeq, ready, asked, cur, haltOk, timer, tmq, superseded, stopped, outq>>

\* ---------------- forwarder goroutine k ----------------
FwdRecv(k) ==
  /\ F[k].pc = "recv"
  /\ \/ /\ S[k].slot # 0
        /\ F' = [F EXCEPT ![k].last = S[k].slot, ![k].pc = "pond"]
        /\ S' = [S EXCEPT ![k].slot = 0]
     \/ /\ S[k].slot = 0 /\ S[k].closed
        /\ F' = [F EXCEPT ![k].pc = IF S[k].inf THEN "exit" ELSE "cas"]
        /\ UNCHANGED S
  /\ UNCHANGED <<lpc, lcmd, ncmd, nsearch, active, eact, pond, outClosed, panic, best, bestSeq, ready, asked, cur, haltOk, timer, tmq, superseded, stopped, outq>>

FwdPonder(k) ==
  /\ F[k].pc = "pond" /\ pond < 3
  /\ pond' = pond + 1 /\ F' = [F EXCEPT ![k].pc = "recv"]
  /\ UNCHANGED <<lpc, lcmd, ncmd, nsearch, active, eact, S, outClosed, panic, best, bestSeq, ready, asked, cur, haltOk, timer, tmq, superseded, stopped, outq>>

FwdCas(k) ==
  /\ F[k].pc = "cas"
  /\ IF active = Token(k) /\ active # 0
       THEN active' = (IF AtomicClaim THEN 0 ELSE active) /\ F' = [F EXCEPT ![k].pc = "send"] /\ Decide(k)
       ELSE UNCHANGED <<active, bestSeq>> /\ F' = [F EXCEPT ![k].pc = "exit"]
  /\ UNCHANGED <<lpc, lcmd, ncmd, nsearch, eact, S, pond, outClosed, panic, best, ready, asked, cur, haltOk, timer, tmq, superseded, stopped, outq>>

FwdSend(k) ==
  /\ F[k].pc = "send" /\ Send(k) /\ F' = [F EXCEPT ![k].pc = "exit"]
  /\ active' = (IF AtomicClaim THEN active ELSE 0)
  /\ UNCHANGED <<lpc, lcmd, ncmd, nsearch, eact, S, pond, outClosed, bestSeq, ready, asked, cur, haltOk, timer, tmq, superseded, stopped>>

Done == lpc = "exited" \/ (lpc = "select" /\ ncmd = MaxCmds)
Idle == Done /\ UNCHANGED vars

Next == ReadCmd \/ SendReadyOk \/ ReadPonder \/ SendInfo \/ GuiRead \/ ActiveOff \/ EngineHalt \/ StopDone \/ StopSend \/ Analyze \/ Activate \/ Spawn
        \/ WaitForwarders \/ ShutdownDrain \/ CloseOut \/ TimerFire \/ ReadTimeout
        \/ (\E k \in K : IterFinish(k) \/ SeeCancel(k) \/ CancelDeliver(k) \/ SearchExit(k)
                        \/ FwdRecv(k) \/ FwdPonder(k) \/ FwdCas(k) \/ FwdSend(k))
        \/ Idle

Fairness == /\ WF_vars(GuiRead)          \* a GUI that keeps reading; safety does not depend on it
            /\ WF_vars(SendReadyOk \/ SendInfo \/ ReadPonder \/ ActiveOff \/ EngineHalt \/ StopDone \/ StopSend \/ Analyze \/ Activate \/ Spawn \/ WaitForwarders \/ ShutdownDrain \/ CloseOut \/ ReadTimeout)
            /\ WF_vars(TimerFire)
            /\ \A k \in K : WF_vars(IterFinish(k) \/ SeeCancel(k) \/ CancelDeliver(k) \/ SearchExit(k))
            /\ \A k \in K : WF_vars(FwdRecv(k) \/ FwdPonder(k) \/ FwdCas(k) \/ FwdSend(k))

Spec == Init /\ [][Next]_vars
FairSpec == Spec /\ Fairness

(* ------------------------------ properties ----------------------------- *)
NoPanic == ~panic                                   \* no send on the closed output channel
AtMostOneBest == \A k \in K : best[k] <= 1          \* never two answers for one go
ReadyOk == ready = asked - (IF lpc = "readyok" THEN 1 ELSE 0)   \* every isready answered (the one being answered excepted)
\* a bestmove is only ever emitted for the search of the current go, never for a superseded one
\* (judged at the decision, i.e. the completion compare-and-swap: a bestmove on its way when
\* the next command is read is the GUI racing itself, not the driver)
NoStaleBest == \A i \in 1..Len(bestSeq) : bestSeq[i][1] = bestSeq[i][2] /\ ~bestSeq[i][3]
\* liveness (under fairness): a go whose search ended by itself (not infinite) and was not superseded is answered
Answered == \A k \in K : (S[k].st = "exit" /\ ~S[k].inf /\ k \notin superseded /\ lpc # "exited") ~> (best[k] = 1 \/ k \in superseded \/ lpc = "exited")
\* a search told to stop while the user waits for it is answered (go infinite included)
\* (unless the GUI itself supersedes the go before the answer is out)
StopAnswered == \A k \in K : (k \in stopped) ~> (best[k] = 1 \/ k \in superseded \/ lpc = "exited")
\* the loop always gets back to its select (no deadlock inside a handler), or exits
LoopReturns == (lpc # "select") ~> (lpc \in {"select", "exited"})
View == <<lpc, lcmd, ncmd, nsearch, active, eact, S, F, pond, outClosed, panic, best, cur, haltOk, timer, tmq, superseded, stopped, ready - asked, outq,
          {i \in 1..Len(bestSeq) : bestSeq[i][1] # bestSeq[i][2] \/ bestSeq[i][3]}>>
=============================================================================
