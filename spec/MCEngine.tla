------------------------------ MODULE MCEngine ------------------------------
(***************************************************************************)
(* Engine.tla model-checked over the abstract game of MCBoard: every       *)
(* sequence of at most MaxCalls public calls.                              *)
(***************************************************************************)
EXTENDS Integers, Sequences, FiniteSets

CONSTANTS MaxCalls, HaltOnMutate

APos(place, turn, rights) == <<place, turn, rights>>
ALegal(p) == CASE p[1] \in 0..2 -> {"a", "b", "x"} \cup (IF p[3] THEN {"c"} ELSE {}) \cup (IF p[1] = 2 THEN {"m"} ELSE {})
               [] p[1] = 3 -> {"s"}
               [] OTHER -> {}
AApply(p, m) == CASE m = "a" -> APos((p[1] + 1) % 3, 1 - p[2], p[3])
                  [] m = "b" -> APos((p[1] + 2) % 3, 1 - p[2], p[3])
                  [] m = "x" -> APos(3, 1 - p[2], FALSE)
                  [] m = "c" -> APos(p[1], 1 - p[2], FALSE)
                  [] m = "m" -> APos(4, 1 - p[2], p[3])
                  [] m = "s" -> APos(3, 1 - p[2], p[3])

E == INSTANCE Engine WITH
       GLegal <- ALegal, GApply <- AApply,
       GTurn <- LAMBDA p : p[2],
       GResets <- LAMBDA p, m : m = "x",
       GIsCastle <- LAMBDA p, m : m = "c",
       GInCheck <- LAMBDA p : p[2] = 0,
       GMayKill <- LAMBDA p, m : m = "x",
       GInsufficient <- LAMBDA p : p[1] = 3,
       NoMove <- "none", NoProgressLimit <- 3

VARIABLES s, calls, last
vars == <<s, calls, last>>

Moves == {"a", "b", "x", "c", "m", "s"}
Starts == {APos(0, 0, TRUE), APos(2, 1, FALSE)}

Init == /\ \E h \in {0, 1} : s = E!NewEngine(E!B!NewBoard(APos(0, 0, TRUE), 0, 1), 0, h)
        /\ calls = 0
        /\ last = [call |-> "new", err |-> FALSE]

Tick == calls < MaxCalls /\ calls' = calls + 1
Do(name, r) == s' = r.s /\ last' = [call |-> name, err |-> r.err]

CallReset    == Tick /\ \E p \in Starts, np \in {0, 2} : Do("reset", E!Reset(s, TRUE, E!B!NewBoard(p, np, 1)))
CallResetBad == Tick /\ Do("reset", E!Reset(s, FALSE, s.bd))
CallMove     == Tick /\ \E m \in Moves : Do("move", E!Move(s, TRUE, m))
CallMoveBad  == Tick /\ Do("move", E!Move(s, FALSE, "none"))
CallTakeBack == Tick /\ Do("takeback", E!TakeBack(s))
CallAnalyze  == Tick /\ \E req \in {-1, 0, 2} : Do("analyze", E!Analyze(s, req))
CallSetDepth == Tick /\ \E d \in {0, 1} : d # s.depth /\ Do("setdepth", E!SetDepth(s, d))
CallSetHash  == Tick /\ \E h \in {0, 1, 2} : h # s.hash /\ Do("sethash", E!SetHash(s, h))
CallHalt     == Tick /\ Do("halt", E!Halt(s))

Next == CallReset \/ CallResetBad \/ CallMove \/ CallMoveBad \/ CallTakeBack \/ CallAnalyze \/ CallHalt \/ CallSetDepth \/ CallSetHash
Spec == Init /\ [][Next]_vars

SearchesCurrent == E!SearchesCurrent(s)
NoLeak == E!NoLeak(s)
\* Analyze succeeds exactly when no handle was held; Halt exactly when one was
AnalyzeIffFree == [][CallAnalyze => (last'.err = s.active)]_vars
HaltIffHeld    == [][CallHalt => (last'.err = ~s.active)]_vars
\* a call that reports an error leaves the board alone
ErrorKeepsBoard == [][last'.err => s'.bd = s.bd]_vars
\* only Analyze acquires a handle; Analyze and Halt never touch the board
OnlyAnalyzeLaunches == [][(~s.active /\ s'.active) => last'.call = "analyze"]_vars
SearchLeavesBoard == [][last'.call \in {"analyze", "halt", "setdepth", "sethash"} => s'.bd = s.bd]_vars
\* the table changes with a new game only, and never under a running search
TableOnlyAtReset == [][s'.ttsize # s.ttsize => (last'.call = "reset" /\ ~s'.active)]_vars
\* the limit of a search is fixed when it is launched
LimitFixedAtLaunch == [][(s.active /\ s'.active) => s'.limit = s.limit]_vars
=============================================================================
