"""The per-property checks.  Each check = model checking of the specification modules that
state the property (TLC, no code involved) + conformance of the real code to them (traces
recorded from /repo's working tree validated by TLC, and/or TLC behaviours replayed)."""
import json
import os

import vlib
from vlib import Inconclusive, Report, log

CHECKS = {}


def check(prop):
    def deco(fn):
        CHECKS[prop] = fn
        return fn
    return deco


START = "rnbqkbnr/pppppppp/8/8/8/8/PPPPPPPP/RNBQKBNR w KQkq - 0 1"
KIWI = "r3k2r/p1ppqpb1/bn2pnp1/3PN3/1p2P3/2N2Q1p/PPPBBPPP/R3K2R w KQkq - 0 1"
MC_FENS = [
    START, KIWI,
    "8/2p5/3p4/KP5r/1R3p1k/8/4P1P1/8 w - - 0 1",
    "r3k2r/Pppp1ppp/1b3nbN/nP6/BBP1P3/q4N2/Pp1P2PP/R2Q1RK1 w kq - 0 1",
    "r3k2r/1P4P1/8/8/8/8/1p4p1/R3K2R b KQkq - 0 1",
    "4k3/8/8/PpP5/8/8/8/4K3 w - b6 0 2",
    "r3k2r/8/8/8/8/8/8/R3K2R w KQkq - 0 1",
]


def mc_chess(work, rep, tier, invariants):
    """TLC on the rules specification itself: perft anchors + invariants over the game graph."""
    quick = tier == "quick"
    cfg = vlib.cfg_text(
        constants={"StartFens": vlib.tla_set(MC_FENS[:4] if quick else MC_FENS),
                   "MaxDepth": 1 if quick else 2, "PerftDepth": 2 if quick else 3},
        invariants=invariants)
    r = vlib.tlc(work, "MCChess", cfg, workers=vlib.NCPU, timeout=3000, heap="8g")
    vlib.need_tlc_ok(r, "MCChess")
    rep.add_tlc(r)
    rep.extra["mc_chess"] = {"states": r.distinct, "invariants": list(invariants), "perft_depth": 2 if quick else 3,
                             "wall_s": round(r.wall, 1)}


def board_traces(work, vh, rep, props, jobs, module="TraceBoard", timeout=3000):
    """jobs: list of dicts(name, args) for `vh boardtrace`; each is generated and validated
    in its own worker (generation and TLC validation of different shards overlap)."""
    def one(job):
        trace = work.path(job["name"] + ".ndjson")
        stats = work.path(job["name"] + ".stats.json")
        vlib.run_harness(work, vh, ["boardtrace"] + job["args"] + ["-out", trace, "-stats", stats])
        n = vlib.count_lines(trace)
        if n == 0:
            raise Inconclusive("generator %s produced no events" % job["name"])
        r = vlib.validate_trace(work, module, props, trace, timeout=timeout)
        r.stats = json.load(open(stats))
        r.games = sum(1 for line in open(trace) if line.startswith('{"op":"reset"') or '"op":"reset"' in line[:40])
        return r
    results = vlib.run_many(one, jobs)
    for r in results:
        rep.counters(r.stats)
        rep.traces += max(1, r.games)
    for r in results[:3]:
        line = vlib.read_line(r.trace, min(3, r.nlines))
        rep.sample(line)
    vlib.absorb_trace_results(rep, results)
    return results


def require(rep, keys, what):
    missing = [k for k in keys if rep.cov.get(k, 0) == 0]
    if missing:
        raise Inconclusive("%s: vacuous run, never exercised: %s" % (what, ", ".join(missing)))


def play_jobs(seed, shards, n, plies, events, max_events=0, prefix="play"):
    return [{"name": "%s%d" % (prefix, i),
             "args": ["-mode", "play", "-seed", seed * 1000 + i, "-n", n, "-plies", plies, "-events", events,
                      "-max-events", max_events]} for i in range(shards)]


def tree_jobs(seed, shards, depth, events):
    return [{"name": "tree%d" % i,
             "args": ["-mode", "tree", "-depth", depth, "-shard", i, "-shards", shards, "-events", events]}
            for i in range(shards)]


def allmoves_jobs(seed, shards, events, max_events=0):
    return [{"name": "allmoves%d" % i,
             "args": ["-mode", "allmoves", "-seed", seed, "-shard", i, "-shards", shards, "-events", events,
                      "-max-events", max_events]} for i in range(shards)]


def mode_jobs(mode, seed, shards, n, plies, events, max_events=0):
    return [{"name": "%s%d" % (mode, i),
             "args": ["-mode", mode, "-seed", seed * 1000 + 500 + i, "-n", n, "-plies", plies, "-events", events,
                      "-max-events", max_events]} for i in range(shards)]


# ----------------------------------------------------------------------------------------
@check("C01")
def c01(work, tier, seed):
    rep = Report("C01", tier, seed)
    vh = vlib.build_harness(work)
    mc_chess(work, rep, tier, ["WellFormedInv"])
    if tier == "quick":
        jobs = (play_jobs(seed, 6, 12, 60, "gen", 450) + tree_jobs(seed, 6, 1, "gen")
                + mode_jobs("synthetic", seed, 2, 400, 0, "gen"))
    else:
        jobs = (play_jobs(seed, 16, 400, 120, "gen", 12000) + tree_jobs(seed, 16, 2, "gen")
                + mode_jobs("synthetic", seed, 8, 8000, 0, "gen"))
    board_traces(work, vh, rep, ["C01"], jobs)
    require(rep, ["legal:KingSideCastle", "legal:QueenSideCastle", "legal:EnPassant", "illegal:EnPassant",
                  "promo:N", "promo:B", "promo:R", "promo:Q", "legal:CapturePromotion", "in-check",
                  "checkmate", "stalemate", "illegal:KingSideCastle", "illegal:QueenSideCastle"], "C01")
    rep.exhaustive = False
    rep.assumptions = [
        "positions judged are those Chess!WellFormed accepts (one king each, side not to move not in check, no pawns on rank 1/8, rights only with king and rook at home, consistent e.p. target)",
        "projection of the implementation's values uses only the per-square public API (harness/internal/proj)",
        "an en-passant capture reports no captured piece (documented convention of board.Move)",
    ]
    return rep.finish(work)


@check("C02")
def c02(work, tier, seed):
    rep = Report("C02", tier, seed)
    vh = vlib.build_harness(work)
    mc_chess(work, rep, tier, ["WellFormedInv"])
    ev = "views,board,prev"
    if tier == "quick":
        jobs = (play_jobs(seed, 8, 6, 60, ev, 700) + tree_jobs(seed, 4, 1, "prev")
                + mode_jobs("prog", seed, 2, 4, 80, ev, 500))
    else:
        jobs = (play_jobs(seed, 16, 300, 150, ev, 20000) + tree_jobs(seed, 16, 2, "prev,views")
                + mode_jobs("prog", seed, 8, 100, 150, ev, 10000))
    board_traces(work, vh, rep, ["C02"], jobs)
    require(rep, ["push:KingSideCastle", "push:QueenSideCastle", "push:EnPassant", "push:Promotion",
                  "push:Capture", "push:Jump", "push-refused"], "C02")
    rep.assumptions = ["attack bits are judged on well-formed positions only",
                       "the board array is read through Position.Square, the other views through their own accessors"]
    return rep.finish(work)


@check("C05")
def c05(work, tier, seed):
    rep = Report("C05", tier, seed)
    vh = vlib.build_harness(work)
    mc_board(work, rep, tier)
    ev = "board,views"
    if tier == "quick":
        jobs = (mode_jobs("dance", seed, 10, 8, 0, "board", 900) + mode_jobs("prog", seed, 3, 5, 120, "board", 600)
                + play_jobs(seed, 3, 6, 200, ev, 900) + mode_jobs("material", seed, 4, 40, 0, "board", 1200))
    else:
        jobs = (mode_jobs("dance", seed, 16, 300, 0, "board", 20000) + mode_jobs("prog", seed, 8, 100, 200, "board", 12000)
                + play_jobs(seed, 8, 100, 300, ev, 15000) + mode_jobs("material", seed, 16, 2000, 0, "board", 15000))
    board_traces(work, vh, rep, ["C05"], jobs)
    require(rep, ["draw:3-Fold Repetition", "draw:No progress", "draw:Insufficient Material",
                  "adjudicate:Checkmate", "push:KingSideCastle", "fork", "pop"], "C05")
    if tier != "quick":
        require(rep, ["draw:5-Fold Repetition", "adjudicate:Stalemate"], "C05")
    rep.assumptions = ["'reported drawn' = Result().Outcome is Draw with a reason other than Stalemate",
                       "the draw is demanded directly after a move (PushMove); after a take-back only 'not drawn' is demanded (C08)"]
    return rep.finish(work)


@check("C07")
def c07(work, tier, seed):
    rep = Report("C07", tier, seed)
    vh = vlib.build_harness(work)
    mc_chess(work, rep, tier, ["ZobristInv"])
    if tier == "quick":
        jobs = (play_jobs(seed, 8, 8, 80, "board", 600) + mode_jobs("prog", seed, 4, 6, 120, "board", 600)
                + mode_jobs("dance", seed, 4, 6, 0, "board", 600) + allmoves_jobs(seed, 8, "board"))
    else:
        jobs = (play_jobs(seed, 16, 300, 150, "board", 12000) + mode_jobs("prog", seed, 8, 200, 200, "board", 12000)
                + mode_jobs("dance", seed, 8, 200, 0, "board", 12000) + allmoves_jobs(seed, 16, "board"))
    board_traces(work, vh, rep, ["C07"], jobs)
    require(rep, ["push:KingSideCastle", "push:QueenSideCastle", "push:EnPassant", "push:Promotion", "push:CapturePromotion",
                  "push:Capture", "push:Jump", "pop", "fork"], "C07")
    rep.assumptions = ["hashes are compared as opaque tokens; a 2^-64 coincidence between different positions would be reported as c07.collision",
                       "every game uses its own Zobrist table seed"]
    return rep.finish(work)


@check("C08")
def c08(work, tier, seed):
    rep = Report("C08", tier, seed)
    vh = vlib.build_harness(work)
    mc_board(work, rep, tier)
    if tier == "quick":
        jobs = (mode_jobs("prog", seed, 10, 6, 150, "board", 800) + mode_jobs("dance", seed, 4, 6, 0, "board", 600)
                + allmoves_jobs(seed, 6, "board"))
    else:
        jobs = (mode_jobs("prog", seed, 16, 300, 300, "board", 15000) + mode_jobs("dance", seed, 8, 200, 0, "board", 12000)
                + allmoves_jobs(seed, 16, "board"))
    board_traces(work, vh, rep, ["C08"], jobs)
    require(rep, ["pop", "fork", "push-refused", "push:KingSideCastle", "push:Capture"], "C08")
    # the boards an engine hands out (Engine.Board()) across moves, take-backs and new games
    engine_api(work, vh, rep, "C08", seed, tier)
    rep.assumptions = ["take-backs below the fork point of a live fork are outside the contract and never generated",
                       "'not-drawn result' after a take-back is demanded only where the line popped to contains no drawn position"]
    return rep.finish(work)


@check("C14")
def c14(work, tier, seed):
    rep = Report("C14", tier, seed)
    vh = vlib.build_harness(work)
    mc_chess(work, rep, tier, ["FenInv"])
    ev = "views,board"
    if tier == "quick":
        jobs = (play_jobs(seed, 8, 8, 80, ev, 800) + mode_jobs("synthetic", seed, 2, 400, 0, "views")
                + mode_jobs("dance", seed, 4, 5, 0, "board", 500) + mode_jobs("prog", seed, 4, 6, 120, "board", 600))
    else:
        jobs = (play_jobs(seed, 16, 300, 200, ev, 20000) + mode_jobs("synthetic", seed, 8, 8000, 0, "views")
                + mode_jobs("dance", seed, 8, 200, 0, "board", 12000) + mode_jobs("prog", seed, 8, 200, 200, "board", 12000))
    board_traces(work, vh, rep, ["C14"], jobs)
    require(rep, ["push:KingSideCastle", "push:EnPassant", "push:Jump", "push:Capture"], "C14")
    # spec -> impl direction: canonical strings (canonicity decided by Fen!Canonical in TLC) must be
    # accepted, decoded to what the specification decodes, and reproduced by re-encoding
    def text(i):
        trace = work.path("canon%d.ndjson" % i)
        vlib.run_harness(work, vh, ["textfuzz", "-seed", seed * 100 + 70 + i, "-n", 1200 if tier == "quick" else 40000, "-out", trace])
        return vlib.validate_trace(work, "TraceText", ["C14"], trace, timeout=3300, heap="4g")
    tres = vlib.run_many(text, range(4 if tier == "quick" else 12))
    rep.traces += sum(r.nlines for r in tres)
    vlib.absorb_trace_results(rep, tres)
    # Engine.Position() after Engine.Reset / Move / TakeBack called directly (also after calls that fail)
    mc_engine(work, rep, tier)
    engine_api(work, vh, rep, "C14", seed, tier)
    rep.assumptions = ["the position command path of the engine is exercised by C10; here the engine is driven through Reset / Move / TakeBack directly"]
    return rep.finish(work)


def mc_engine(work, rep, tier):
    """TLC on Engine.tla over the abstract game: every sequence of public calls up to a bound; the variant in
    which TakeBack forgets to halt the search must be rejected."""
    quick = tier == "quick"
    props = ["AnalyzeIffFree", "HaltIffHeld", "ErrorKeepsBoard", "OnlyAnalyzeLaunches", "SearchLeavesBoard", "TableOnlyAtReset", "LimitFixedAtLaunch"]
    cfg = vlib.cfg_text(constants={"MaxCalls": 6 if quick else 8, "HaltOnMutate": "TRUE"}, invariants=["SearchesCurrent", "NoLeak"], properties=props)
    r = vlib.tlc(work, "MCEngine", cfg, workers=8, timeout=1500, heap="4g", name="MCEngine", coverage=True)
    vlib.need_tlc_ok(r, "MCEngine")
    rep.add_tlc(r)
    info = dict({"states": r.distinct, "max_calls": 6 if quick else 8}, **all_actions_taken(r, "Engine.tla"))
    cfg = vlib.cfg_text(constants={"MaxCalls": 5, "HaltOnMutate": "FALSE"}, invariants=["SearchesCurrent"])
    r = vlib.tlc(work, "MCEngine", cfg, workers=4, timeout=600, heap="2g", name="MCEngine-dev")
    if r.ok or "Invariant SearchesCurrent is violated" not in (r.out or ""):
        raise Inconclusive("Engine.tla: a TakeBack that does not halt the search is not rejected by SearchesCurrent")
    info["deviation_rejected"] = "HaltOnMutate=FALSE violates SearchesCurrent"
    rep.extra["mc_engine"] = info


def engine_api(work, vh, rep, prop, seed, tier):
    """The engine object driven through its public methods (vh ucipos -api), every call judged as one step of
    Engine.tla by TraceUciPos: board calls for C14, the limit an analysis runs under for C15; what Engine.tla says
    beyond the listed properties is reported as notes (x.engine-*)."""
    quick = tier == "quick"

    def api(i):
        trace = work.path("engapi%d.ndjson" % i)
        vlib.run_harness(work, vh, ["ucipos", "-api", "-seed", seed * 100 + 90 + i, "-n", 60 if quick else 2500, "-cmds", 5 if i % 2 == 0 else 8, "-out", trace], timeout=3000)
        r = vlib.validate_trace(work, "TraceUciPos", [prop], trace, timeout=3300, heap="2g" if quick else "4g")
        r.stats = {"engine-api:" + k: sum(1 for line in open(trace) if '"kind":"%s"' % k in line) for k in ("reset", "move", "takeback", "analyze", "halt", "setdepth", "sethash")}
        r.stats["engine-api:analysis-ended-by-itself"] = sum(1 for line in open(trace) if '"kind":"analyze"' in line and '"closed":-1' not in line and '"err":0' in line)
        r.stats["engine-api:analysis-kept-running"] = sum(1 for line in open(trace) if '"kind":"analyze"' in line and '"closed":-1' in line and '"err":0' in line)
        return r
    ares = vlib.run_many(api, range(2 if quick else 8))
    for r in ares:
        rep.counters(r.stats)
    vlib.absorb_trace_results(rep, ares)
    require(rep, ["engine-api:reset", "engine-api:move", "engine-api:takeback", "engine-api:analyze", "engine-api:halt", "engine-api:setdepth", "engine-api:sethash",
                  "engine-api:analysis-ended-by-itself", "engine-api:analysis-kept-running"], prop)


def mc_board(work, rep, tier):
    """TLC on Board.tla over the abstract game (all programmes up to a bound)."""
    quick = tier == "quick"
    cfg = vlib.cfg_text(constants={"MaxOps": 6 if quick else 8, "NBoards": 2 if quick else 3},
                        invariants=["PopRestores", "DrawIffSomewhere", "ForkSharesPast", "TypeOK"], properties=["ForkIsolated"])
    r = vlib.tlc(work, "MCBoard", cfg, workers=vlib.NCPU, timeout=3000, heap="8g")
    vlib.need_tlc_ok(r, "MCBoard")
    rep.add_tlc(r)
    rep.extra["mc_board"] = {"states": r.distinct, "max_ops": 6 if quick else 8, "wall_s": round(r.wall, 1)}
    # the board AS IMPLEMENTED (prev-linked shared nodes, repetition map, bounded walk, flags undone on
    # take-back) refines Board.tla for every programme up to the bound; the two behaviours the code
    # first had are rejected by the same model
    base = {"MaxOps": 6 if quick else 8, "NBoards": 2, "WalkInclusive": "TRUE", "CastleResets": "FALSE", "NPLimit": 7}
    cfg = vlib.cfg_text(constants=base, invariants=["Refines", "DrawRefines", "RepsExact"])
    r = vlib.tlc(work, "BoardImpl", cfg, workers=vlib.NCPU, timeout=3300, heap="6g" if quick else "12g", coverage=True)
    vlib.need_tlc_ok(r, "BoardImpl")
    rep.add_tlc(r)
    rep.extra["mc_boardimpl_actions"] = all_actions_taken(r, "BoardImpl.tla")
    rej = []
    for k, v in (("WalkInclusive", "FALSE"), ("CastleResets", "TRUE")):
        c = dict(base, MaxOps=6)
        c[k] = v
        r2 = vlib.tlc(work, "BoardImpl", vlib.cfg_text(constants=c, invariants=["Refines", "DrawRefines"]), workers=4, timeout=900, heap="4g", name="BoardImpl-" + k)
        if r2.ok:
            raise Inconclusive("BoardImpl.tla: deviation %s=%s is not rejected" % (k, v))
        rej.append("%s=%s" % (k, v))
    rep.extra["mc_board_impl"] = {"states": r.distinct, "constants": base, "deviations_rejected": rej, "wall_s": round(r.wall, 1)}


# ----------------------------------------------------------------------------------------
def replay(path):
    """Re-validate a recorded failing trace (the trace was recorded from the real code; the
    replay shows the specification rejecting it at the recorded event)."""
    info = json.load(open(path))
    prop = info["property"]
    work = vlib.Work(prop, "replay")
    if info.get("kind") == "crash":
        # run the same harness command again against the current tree
        try:
            vh = vlib.build_harness(work)
            args = [a if not a.endswith(".ndjson") else work.path(os.path.basename(a)) for a in info["harness_args"]]
            try:
                vlib.run_harness(work, vh, args, timeout=3000)
            except vlib.CrashInAnchoredCode as e:
                print("FAIL harness %s: panic at %s" % (" ".join(args[:6]), e.where))
                return 1
            print("replayed %s: no panic" % " ".join(args[:6]))
            return 0
        finally:
            work.cleanup()
    try:
        module = info.get("module") or "TraceBoard"
        r = vlib.validate_trace(work, module, [prop], info["trace"], extra_constants=info.get("constants"))
        for lineno, names in r.fails:
            print("FAIL line %d: %s" % (lineno, ", ".join(names)))
        print("replayed %s: %d failing events" % (info["trace"], len(r.fails)))
        return 1 if r.fails else 0
    finally:
        work.cleanup()


# ----------------------------------------------------------------------------------------
@check("C09")
def c09(work, tier, seed):
    rep = Report("C09", tier, seed)
    vh = vlib.build_harness(work)
    quick = tier == "quick"
    cfg = vlib.cfg_text(constants={"K": 127, "KT": 6 if quick else 20}, invariants=["Closed"])
    r = vlib.tlc(work, "MCScore", cfg, workers=4, timeout=1800, heap="4g")
    vlib.need_tlc_ok(r, "MCScore")
    rep.add_tlc(r)
    rep.extra["mc_score"] = {"K": 127, "KT": 6 if quick else 20, "states": r.distinct}
    shards = 8 if quick else 16

    def one(i):
        trace = work.path("scores%d.ndjson" % i)
        vlib.run_harness(work, vh, ["scores", "-seed", seed, "-rand", 30 if quick else 300, "-shard", i, "-shards", shards, "-out", trace])
        rr = vlib.validate_trace(work, "TraceScore", ["C09"], trace)
        return rr
    results = vlib.run_many(one, range(shards))
    rep.traces = sum(r.nlines for r in results)
    for r in results[:2]:
        line = vlib.read_line(r.trace, 1)
        rep.sample(line[:600] + " ...")
    vlib.absorb_trace_results(rep, results)
    n = rep.events
    rep.exhaustive = True
    rep.extra["pairs"] = n * n
    rep.extra["domain"] = "lost, won, mate in k for every k in -127..127 \\ {0} (increment: |k| <= 126), 14 fixed float32 edge values, %d seeded random float32 values" % (30 if quick else 300)
    rep.assumptions = ["NaN evaluations are outside the domain (C20 establishes evaluations are finite)",
                       "the mate distance is an int8: IncrementMateDistance is judged for |k| <= 126"]
    return rep.finish(work)


# ----------------------------------------------------------------------------------------
@check("C06")
def c06(work, tier, seed):
    rep = Report("C06", tier, seed)
    vh = vlib.build_harness(work)
    quick = tier == "quick"
    mc_chess(work, rep, tier, ["AttackSymmetry"])

    jobs = []
    sh = 8 if quick else 16
    for i in range(sh):
        jobs.append(("lines%d" % i, ["attacks", "-mode", "lines", "-shard", i, "-shards", sh]))
    jobs.append(("tables", ["attacks", "-mode", "tables", "-seed", seed, "-n", 500 if quick else 5000]))
    rs = 2 if quick else 8
    for i in range(rs):
        jobs.append(("random%d" % i, ["attacks", "-mode", "random", "-seed", seed * 100 + i, "-n", 100 if quick else 2000, "-shard", 0, "-shards", 1]))
    if not quick:
        for i in range(32):
            jobs.append(("joint%d" % i, ["attacks", "-mode", "joint", "-shard", i, "-shards", 32]))

    def one(job):
        name, args = job
        trace = work.path(name + ".ndjson")
        vlib.run_harness(work, vh, args + ["-out", trace])
        return vlib.validate_trace(work, "TraceBoard", ["C06"], trace, timeout=3400, heap="4g")
    results = vlib.run_many(one, jobs)
    cases = 0
    rows = 0
    for r in results:
        for line in open(r.trace):
            if '"op":"attackrow"' in line:
                rows += 1
                cases += line.count('"occ"')
    rep.sample(vlib.read_line(results[0].trace, 1)[:700] + " ...")
    vlib.absorb_trace_results(rep, results)
    rep.traces += len(results)
    rep.extra["attack_cases"] = cases
    rep.extra["attack_rows"] = rows
    expect_rows = 64 * 4
    lines_rows = sum(1 for r in results if "lines" in r.trace for line in open(r.trace))
    if lines_rows != expect_rows:
        raise Inconclusive("C06: expected %d single-line rows, got %d" % (expect_rows, lines_rows))

    # derived queries on positions
    ev = "views,derived"
    if quick:
        jobs2 = play_jobs(seed, 6, 6, 60, ev, 400) + tree_jobs(seed, 8, 1, ev)
    else:
        jobs2 = play_jobs(seed, 16, 200, 120, ev, 10000) + tree_jobs(seed, 16, 2, "derived") + mode_jobs("synthetic", seed, 4, 3000, 0, ev)
    board_traces(work, vh, rep, ["C06"], jobs2)
    require(rep, ["view-check", "view-mate", "pin"], "C06")
    rep.exhaustive = True
    rep.extra["exhaustive_space"] = ("every occupancy of each single line through each of the 64 squares (own square empty and occupied) for rook, bishop, queen; king/knight/pawn tables for all 64 squares"
                                     + ("" if quick else "; every joint occupancy of the two rook lines and of the two bishop lines through each square"))
    rep.assumptions = ["derived queries (attacked/defended/check/mate/capturers/pins) are sampled over positions, not exhaustive",
                       "the enumeration's completeness is counted by TLC (2 * 2^n cases per line row) and by the driver (256 rows)"]
    return rep.finish(work)


# ----------------------------------------------------------------------------------------
# search family

def mc_search(work, rep, tier, invariants, shift=True):
    """TLC on the algorithm model (MCSearch) against the reference semantics (Search.tla)."""
    quick = tier == "quick"
    runs = [("ladder", {"Family": '"ladder"', "TreeDepth": 2, "MaxLen": 5 if quick else 7, "SmallLeaves": "FALSE"}),
            ("all", {"Family": '"all"', "TreeDepth": 2, "MaxLen": 2, "SmallLeaves": "FALSE"})]
    if not quick and "WindowClips" not in invariants:
        # every tree of depth <= 3 over the reduced leaf set (365 k trees)
        runs.append(("all3", {"Family": '"all"', "TreeDepth": 3, "MaxLen": 2, "SmallLeaves": "TRUE"}))
    tot = {}
    for name, consts in runs:
        consts = dict(consts)
        consts["ShiftWindow"] = "TRUE" if shift else "FALSE"
        cfg = vlib.cfg_text(constants=consts, invariants=invariants)
        r = vlib.tlc(work, "MCSearch", cfg, workers=vlib.NCPU, timeout=3300, heap="6g" if quick else "12g", name="MCSearch-" + name,
                     extra=["-maxSetSize", "4000000"])
        vlib.need_tlc_ok(r, "MCSearch " + name)
        rep.add_tlc(r)
        tot[name] = {"trees": r.distinct, "wall_s": round(r.wall, 1), "constants": consts}
    rep.extra["mc_search"] = tot


def search_traces(work, vh, rep, props, jobs, timeout=3300, heap="6g"):
    def one(job):
        name, args = job
        trace = work.path(name + ".ndjson")
        vlib.run_harness(work, vh, ["searchtrace"] + args + ["-out", trace], timeout=3000)
        if vlib.count_lines(trace) == 0:
            raise Inconclusive("generator %s produced no events" % name)
        r = vlib.validate_trace(work, "TraceSearch", props, trace, timeout=timeout, heap=heap)
        ops = {}
        for line in open(trace):
            k = line.find('"op":"')
            op = line[k + 6:line.find('"', k + 6)]
            ops[op] = ops.get(op, 0) + 1
        r.ops = ops
        return r
    results = vlib.run_many(one, jobs, workers=min(vlib.NCPU, 12))
    for r in results:
        rep.counters(r.ops)
        for note in r.notes:
            rep.counters({"note:" + note: 1})
    for r in results[:2]:
        for i in (2, 3):
            line = vlib.read_line(r.trace, i)
            if line and len(line) < 3000:
                rep.sample(line)
    rep.traces += sum(r.ops.get("tree", 0) + r.ops.get("qtree", 0) for r in results)
    vlib.absorb_trace_results(rep, results)
    return results


def run_extras(work, vh, rep, seed, tier):
    """Behaviour beyond the listed properties (spec/Extras.tla): validated the same way, but a
    disagreement is a note in the evidence, never a violation of the property whose check runs it."""
    trace = work.path("extras.ndjson")
    vlib.run_harness(work, vh, ["extras", "-seed", seed, "-n", 80 if tier == "quick" else 2000, "-out", trace])
    r = vlib.validate_trace(work, "TraceExtras", ["X"], trace, timeout=3000, heap="4g")
    if r.error is not None:
        raise Inconclusive("extras validation failed: %s" % r.error)
    notes = {}
    for lineno, names in r.fails:
        for nm in names:
            notes[nm] = notes.get(nm, 0) + 1
    for nm, n in sorted(notes.items()):
        print("NOTE extra behaviour (not a listed property) differs from spec/Extras.tla: %s (%d events)" % (nm, n))
    rep.add_tlc(r)
    rep.extra["extras"] = {"events": r.nlines, "differences": notes,
                           "covers": "move priority queue, First(), MVV-LVA priorities, stable sort, Selection(), WriteLimited tables, books built from lines"}
    # searches restricted to a line (search.Context.Ponder): reference value over the restricted tree
    ptrace = work.path("ponder.ndjson")
    vlib.run_harness(work, vh, ["searchtrace", "-mode", "x03", "-seed", seed, "-n", 20 if tier == "quick" else 400, "-depth", 3,
                                "-cfgs", "hash,morlock,qshash,bernstein,forcing", "-limit", 30000, "-out", ptrace])
    pr = vlib.validate_trace(work, "TraceSearch", ["X03"], ptrace, timeout=3000, heap="4g")
    if pr.error is not None:
        raise Inconclusive("ponder validation failed: %s" % pr.error)
    pnotes = {}
    for lineno, names in pr.fails:
        for nm in names:
            pnotes[nm] = pnotes.get(nm, 0) + 1
    for nm, n in sorted(pnotes.items()):
        print("NOTE extra behaviour (not a listed property) differs from the specification: %s (%d events)" % (nm, n))
    rep.add_tlc(pr)
    rep.extra["extras"]["ponder_line_searches"] = {"events": pr.nlines, "differences": pnotes}


def run_console_extras(work, vh, rep, tier):
    """The console driver (spec/Console.tla): outside the listed properties (they anchor the UCI driver only).
    TLC: the model with the UCI driver's repairs transplanted (Fixed = TRUE) satisfies the three invariants and
    the liveness properties; the model of the code (Fixed = FALSE) violates each invariant.  The probes try
    the counterexamples on the real driver.  Everything here is a note in the evidence, never a verdict."""
    base = {"MaxCmds": 3 if tier == "quick" else 4, "NS": 2, "MaxDepth": 2}
    info = {}
    cfg = vlib.cfg_text(spec="FairSpec", constants=dict(base, Fixed="TRUE"), invariants=["NoPanic", "NoStaleBest", "NoLostAnswer"],
                        properties=["Answered", "LoopReturns"], view="View")
    r = vlib.tlc(work, "Console", cfg, workers=vlib.NCPU, timeout=1500, heap="8g", name="Console-fixed")
    rep.add_tlc(r)
    info["repaired_design_holds"] = bool(r.ok)
    info["repaired_design_states"] = r.distinct
    found = []
    for inv in ["NoPanic", "NoStaleBest", "NoLostAnswer"]:
        cfg = vlib.cfg_text(spec="Spec", constants=dict(base, MaxCmds=4, Fixed="FALSE"), invariants=[inv], view="View")
        r = vlib.tlc(work, "Console", cfg, workers=vlib.NCPU, timeout=900, heap="8g", name="Console-code-" + inv)
        if ("Invariant %s is violated" % inv) in (r.out or ""):
            found.append(inv)
    info["counterexamples_on_the_model_of_the_code"] = found
    probes = {}
    for probe, n in [("short-reset", 1), ("quit-race", 150), ("double-halt", 40), ("stale-best", 60)]:
        try:
            p = vlib.run_harness(work, vh, ["console", "-probe", probe, "-n", n], timeout=300, check=False)
        except Exception as e:  # a hung probe is not a verdict on anything
            probes[probe] = "probe did not finish: %s" % type(e).__name__
            continue
        txt = p.stdout + p.stderr
        res = [l for l in txt.splitlines() if l.startswith("RESULT")]
        pan = [l for l in txt.splitlines() if l.startswith("panic:")]
        if pan or p.returncode != 0:   # (deferred closes can let the RESULT line out while the process is dying)
            probes[probe] = "process died: " + (pan[0] if pan else "rc=%d" % p.returncode)
        else:
            probes[probe] = res[0][len("RESULT "):] if res else "no result"
    info["probes_on_the_real_driver"] = probes
    for k, v in sorted(probes.items()):
        print("NOTE console driver (not a listed property) probe %s: %s" % (k, v))
    rep.extra["console"] = info


ALLCFG = "morlock,hash,minimax,qsmat,qshash,turochamp,sargon,bernstein,forcing"


@check("C03")
def c03(work, tier, seed):
    rep = Report("C03", tier, seed)
    vh = vlib.build_harness(work)
    mc_search(work, rep, tier, ["FullWindowExact", "MateWithinDepth"])
    if tier == "quick":
        jobs = [("c03a%d" % i, ["-mode", "c03", "-seed", seed * 100 + i, "-n", 14, "-depth", 3, "-cfgs", ALLCFG, "-limit", 40000]) for i in range(6)]
        jobs += [("c03m%d" % i, ["-mode", "c03", "-mates", "-seed", seed * 100 + 50 + i, "-n", 6, "-depth", 5, "-cfgs", "hash,morlock", "-limit", 60000]) for i in range(4)]
        jobs += [("c03l", ["-mode", "c03", "-ladders", "-n", 5, "-depth", 5, "-cfgs", "hash", "-limit", 60000])]
        jobs += [("c03k", ["-mode", "c03", "-ladders", "-n", 3, "-depth", 5, "-cfgs", "morlock", "-limit", 60000])]
    else:
        jobs = [("c03a%d" % i, ["-mode", "c03", "-heavy", "-seed", seed * 100 + i, "-n", 150, "-depth", 3, "-cfgs", ALLCFG, "-limit", 60000]) for i in range(12)]
        jobs += [("c03m%d" % i, ["-mode", "c03", "-mates", "-seed", seed * 100 + 50 + i, "-n", 40, "-depth", 5, "-cfgs", "hash,morlock,qshash", "-limit", 250000]) for i in range(12)]
        jobs += [("c03d%d" % i, ["-mode", "c03", "-mates", "-seed", seed * 100 + 80 + i, "-n", 6, "-depth", 6, "-cfgs", "hash", "-limit", 400000]) for i in range(6)]
        jobs += [("c03l%d" % i, ["-mode", "c03", "-ladders", "-n", 10, "-depth", 5, "-cfgs", c, "-limit", 100000]) for i, c in enumerate(["hash", "morlock", "qshash"])]
    search_traces(work, vh, rep, ["C03"], jobs)
    require(rep, ["tree", "search"], "C03")
    run_extras(work, vh, rep, seed, tier)
    run_console_extras(work, vh, rep, tier)
    rep.assumptions = ["the tree dump enumerates children with the real PushMove/PopMove (validated independently by C01/C02/C05/C08)",
                       "explored flags are evaluated the way the search evaluates them (predicate obtained at the parent, called after the move is pushed)",
                       "the reference negamax (Search!MM / QMM) is evaluated by TLC with Score.tla's order; it shares no code with the implementation",
                       "a root without explored legal moves has an empty PV; roots already drawn return 0"]
    return rep.finish(work)


@check("C13")
def c13(work, tier, seed):
    rep = Report("C13", tier, seed)
    vh = vlib.build_harness(work)
    mc_search(work, rep, tier, ["WindowClips"])
    if tier == "quick":
        jobs = [("c13a%d" % i, ["-mode", "c13", "-seed", seed * 100 + i, "-n", 10, "-depth", 3, "-cfgs", "hash,morlock,qshash,qsmat,turochamp,forcing", "-limit", 30000, "-windows", 24]) for i in range(6)]
        jobs += [("c13m%d" % i, ["-mode", "c13", "-mates", "-seed", seed * 100 + 50 + i, "-n", 5, "-depth", 5, "-cfgs", "hash,qshash", "-limit", 50000, "-windows", 30]) for i in range(6)]
    else:
        jobs = [("c13a%d" % i, ["-mode", "c13", "-heavy", "-seed", seed * 100 + i, "-n", 120, "-depth", 3, "-cfgs", "hash,morlock,qshash,qsmat,turochamp,sargon,bernstein,forcing", "-limit", 60000, "-windows", 60]) for i in range(12)]
        jobs += [("c13m%d" % i, ["-mode", "c13", "-mates", "-seed", seed * 100 + 50 + i, "-n", 40, "-depth", 5, "-cfgs", "hash,qshash,morlock", "-limit", 200000, "-windows", 60]) for i in range(12)]
    search_traces(work, vh, rep, ["C13"], jobs)
    require(rep, ["tree", "search", "qtree", "qsearch"], "C13")
    rep.assumptions = ["windows are built from the neighbours of the real full-window result, decided scores and mate scores of both parities; the true value they are judged against is TLC's",
                       "every interior node of a search is such a call: enumerating root calls over many positions and windows exercises the contract the recursion relies on"]
    return rep.finish(work)


@check("C11")
def c11(work, tier, seed):
    rep = Report("C11", tier, seed)
    vh = vlib.build_harness(work)
    mc_search(work, rep, tier, ["FullWindowExact"])
    cf = "hash,morlock,qshash,qsmat"
    if tier == "quick":
        jobs = [("c11a%d" % i, ["-mode", "c11", "-seed", seed * 100 + i, "-n", 12, "-depth", 3, "-cfgs", cf, "-limit", 30000]) for i in range(8)]
        # many more roots under the fine-grained position-determined evaluation, where a wrong entry changes values
        jobs += [("c11h%d" % i, ["-mode", "c11", "-seed", seed * 100 + 20 + i, "-n", 40, "-depth", 3, "-cfgs", "hash", "-limit", 30000]) for i in range(8)]
        jobs += [("c11m%d" % i, ["-mode", "c11", "-mates", "-seed", seed * 100 + 50 + i, "-n", 6, "-depth", 4, "-cfgs", "hash,morlock", "-limit", 40000]) for i in range(4)]
        # small endgames at depth 4, many of them: where fail-low nodes with a table move are re-searched deeper
        jobs += [("c11e%d" % i, ["-mode", "c11", "-mates", "-seed", seed * 100 + 60 + i, "-n", 30, "-depth", 4, "-cfgs", "hash", "-limit", 60000]) for i in range(8)]
    else:
        jobs = [("c11a%d" % i, ["-mode", "c11", "-heavy", "-seed", seed * 100 + i, "-n", 150, "-depth", 3, "-cfgs", cf, "-limit", 60000]) for i in range(12)]
        jobs += [("c11m%d" % i, ["-mode", "c11", "-mates", "-seed", seed * 100 + 50 + i, "-n", 50, "-depth", 5, "-cfgs", "hash,morlock,qshash", "-limit", 150000]) for i in range(12)]
    search_traces(work, vh, rep, ["C11"], jobs)
    require(rep, ["tree", "search", "note:tree|nodraws=TRUE"], "C11")
    # the table as a driver uses it: the same console session (new game, moves, analyses, take-backs, deeper
    # analyses of the position before) with `hash 1` and with `nohash`
    ctrace = work.path("consolett.ndjson")
    vlib.run_harness(work, vh, ["console", "-probe", "transparency", "-seed", seed, "-n", 60 if tier == "quick" else 3000, "-out", ctrace], timeout=3000)
    cr = vlib.validate_trace(work, "TraceSearch", ["C11"], ctrace, timeout=3000, heap="2g" if tier == "quick" else "4g")
    rep.counters({"console-sessions-with-and-without-table": cr.nlines})
    vlib.absorb_trace_results(rep, [cr])
    require(rep, ["console-sessions-with-and-without-table"], "C11")
    rep.assumptions = ["evaluations are position-determined (material, hash-derived test evaluator); dumps are of real positions, draws by repetition/fifty-move inside the tree make a dump ineligible only through the reference value (they are part of it)",
                       "table sizes 32 B (one slot), 64 B, 4 KiB, 1 MiB; scenarios: iterative deepening, same depth twice, mixed depths on one table"]
    return rep.finish(work)


@check("C12")
def c12(work, tier, seed):
    rep = Report("C12", tier, seed)
    vh = vlib.build_harness(work)
    mc_search(work, rep, tier, ["FullWindowExact"])
    if tier == "quick":
        jobs = [("c12a%d" % i, ["-mode", "c12", "-seed", seed * 100 + i, "-n", 2, "-depth", 3, "-cfgs", c, "-limit", 20000, "-polls", 500])
                for i, c in enumerate(["hash", "morlock", "qshash", "minimax", "sargon", "turochamp", "hash", "qsmat"])]
    else:
        jobs = [("c12a%d" % i, ["-mode", "c12", "-heavy", "-seed", seed * 100 + i, "-n", 12, "-depth", 3, "-cfgs", c, "-limit", 60000, "-polls", 4000])
                for i, c in enumerate(["hash", "morlock", "qshash", "minimax", "sargon", "turochamp", "bernstein", "qsmat", "hash", "morlock", "minimax-material", "qshash"])]
    search_traces(work, vh, rep, ["C12"], jobs)
    require(rep, ["tree", "cancel", "dry"], "C12")
    rep.assumptions = ["cancellation is delivered through a context whose Done() reports cancellation from the n-th call on: every node entry polls it, so 'every instant' = every poll index of the search",
                       "the board record compares FEN, hash, ply, last move, castled flags and result class (Unknown and Undecided are one class)"]
    return rep.finish(work)


# ----------------------------------------------------------------------------------------
@check("C17")
def c17(work, tier, seed):
    rep = Report("C17", tier, seed)
    quick = tier == "quick"
    vh = vlib.build_harness(work)
    # (1) the model: every interleaving of the bounded configuration
    consts = {"Procs": "{1, 2}" if quick else "{1, 2, 3}", "NSlots": 2, "Hashes": "{0, 1, 2}", "Vals": "{1, 2}",
              "WritesPerProc": 2, "AtomicUsed": "TRUE"}
    cfg = vlib.cfg_text(constants=consts, invariants=["SlotIntegrity", "ReplacementOrder", "UsedInRange", "UsedExact", "UsedTracks"])
    r = vlib.tlc(work, "TT", cfg, workers=vlib.NCPU, timeout=3000, heap="6g" if quick else "12g", coverage=True)
    vlib.need_tlc_ok(r, "TT")
    rep.add_tlc(r)
    rep.extra["mc_tt"] = {"states": r.distinct, "constants": consts, "wall_s": round(r.wall, 1)}
    rep.extra["mc_tt"].update(all_actions_taken(r, "TT.tla", allow=("IncrRead", "IncrWrite")))  # the plain-increment grain (AtomicUsed = FALSE)
    # the as-coded grain of the counter (read, then write) must be REJECTED by the same model:
    # this keeps the UsedExact invariant from being vacuous
    consts2 = dict(consts, AtomicUsed="FALSE", Procs="{1, 2}")
    r2 = vlib.tlc(work, "TT", vlib.cfg_text(constants=consts2, invariants=["UsedExact"]), workers=4, timeout=600, heap="4g", name="TT-plainincr")
    if r2.ok:
        raise Inconclusive("TT.tla: UsedExact is vacuous (holds even with a non-atomic counter)")

    # (2) histories from the real table, linearizability decided by TLC
    shards = 8 if quick else 16
    n = 60 if quick else 1500

    def one(i):
        trace = work.path("tt%d.ndjson" % i)
        vlib.run_harness(work, vh, ["tthammer", "-seed", seed * 100 + i, "-n", n, "-calls", 6 + i % 5, "-g", 2 + i % 7, "-out", trace])
        rr = vlib.validate_trace(work, "TraceTT", ["C17"], trace, timeout=3000, heap="4g")
        return rr
    results = vlib.run_many(one, range(shards))
    overl = 0
    for r in results:
        pend = set()
        for line in open(r.trace):
            if '"op":"inv"' in line:
                e = json.loads(line)
                pend.add(e["id"])
                if len(pend) > 1:
                    overl += 1
            elif '"op":"resp"' in line:
                pend.discard(json.loads(line)["id"])
            elif '"op":"ttreset"' in line:
                rep.traces += 1
    rep.counters({"overlapping_invocations": overl})
    for i in (2, 3, 4):
        rep.sample(vlib.read_line(results[0].trace, i))
    vlib.absorb_trace_results(rep, results)
    if overl < 100:
        raise Inconclusive("C17: histories are not concurrent enough (%d overlapping invocations)" % overl)
    # (2b) the tables an engine hands to its searches across new games while halted searches still store
    etrace = work.path("enginett.ndjson")
    vlib.run_harness(work, vh, ["tthammer", "-engine", "-seed", seed, "-n", 12 if quick else 300, "-out", etrace], timeout=1800)
    er = vlib.validate_trace(work, "TraceTT", ["C17"], etrace, timeout=1200, heap="2g")
    rep.counters({"engine-table-scenarios": er.nlines})
    vlib.absorb_trace_results(rep, [er])

    # (3) the same hammer and two real searches sharing a table under the race detector: a race report
    # falsifies the atomicity the model assumes (DESIGN.md section 8)
    vr = vlib.build_harness(work, race=True)
    trace = work.path("ttrace.ndjson")
    p = vlib.run_harness(work, vr, ["tthammer", "-seed", seed, "-n", 60 if quick else 600, "-calls", 10, "-g", 8, "-out", trace], check=False, timeout=1800)
    p2 = vlib.run_harness(work, vr, ["ttsearch", "-seed", seed, "-n", 3 if quick else 20], check=False, timeout=1800)
    p3 = vlib.run_harness(work, vr, ["tthammer", "-engine", "-seed", seed, "-n", 6 if quick else 60, "-out", work.path("enginett-race.ndjson")], check=False, timeout=1800)
    races = 0
    for pp, what in ((p, "tthammer"), (p2, "ttsearch"), (p3, "enginett")):
        txt = pp.stdout + pp.stderr
        if "WARNING: DATA RACE" in txt:
            races += 1
            d = os.path.join(vlib.OUTROOT, "replay", "C17")
            os.makedirs(d, exist_ok=True)
            path = os.path.join(d, "race-%s-seed%d.txt" % (what, seed))
            open(path, "w").write(txt[:20000])
            rep.fail_events["c17.data-race"] = rep.fail_events.get("c17.data-race", 0) + 1
            rep.violations.append(("c17.data-race", path))
        elif pp.returncode != 0:
            raise Inconclusive("race-detector run of %s failed: %s" % (what, txt[-2000:]))
    rep.extra["race_detector_runs"] = 3
    rep.extra["race_reports"] = races
    rep.assumptions = ["linearizability is decided over histories of <= ~80 calls by 2..8 goroutines on tables of 1, 2 and 4 slots; stamps come from one atomic counter (before the call / after it returns)",
                       "data-race freedom is a dynamic check (Go race detector) over the executed schedules, not a proof"]
    return rep.finish(work)


# ----------------------------------------------------------------------------------------
@check("C19")
def c19(work, tier, seed):
    rep = Report("C19", tier, seed)
    vh = vlib.build_harness(work)
    quick = tier == "quick"
    # the decoder specification against itself: Decode(Encode(x)) = x over the game graph
    mc_chess(work, rep, tier, ["FenInv"])
    # the placement cursor as the decoder processes it, on a small board, for EVERY token string up to a
    # length: never indexes off the board, accepted => every piece on its own square and all squares
    # accounted for; the 8-bit cursor without bounds checks (as first coded) is rejected by the same model
    cons = {"NF": 2, "NR": 3, "MaxDigit": 3, "Mod": 0, "Checked": "TRUE", "MaxLen": 8 if quick else 10}
    r = vlib.tlc(work, "FenCursor", vlib.cfg_text(constants=cons, invariants=["NeverCrashes", "NoDuplicate", "AcceptedIsExact"]),
                 workers=vlib.NCPU, timeout=3000, heap="8g")
    vlib.need_tlc_ok(r, "FenCursor")
    rep.add_tlc(r)
    r2 = vlib.tlc(work, "FenCursor", vlib.cfg_text(constants=dict(cons, Mod=8, Checked="FALSE"), invariants=["NeverCrashes", "NoDuplicate", "AcceptedIsExact"]),
                  workers=4, timeout=600, heap="4g", name="FenCursor-wrap")
    if r2.ok:
        raise Inconclusive("FenCursor.tla: the wrapping unchecked cursor is not rejected")
    rep.extra["mc_fen_cursor"] = {"states": r.distinct, "constants": cons, "deviation_rejected": "Mod=8, Checked=FALSE"}
    shards = 8 if quick else 16
    n = 1500 if quick else 60000

    def one(i):
        trace = work.path("text%d.ndjson" % i)
        vlib.run_harness(work, vh, ["textfuzz", "-seed", seed * 100 + i, "-n", n, "-out", trace])
        r = vlib.validate_trace(work, "TraceText", ["C19"], trace, timeout=3300, heap="4g")
        c = {}
        for line in open(trace):
            for key in ('"outcome":"value"', '"outcome":"err"', '"outcome":"accepted"', '"outcome":"rejected"', '"outcome":"crash"', '"op":"fenstr"', '"op":"movestr"'):
                if key in line[:120] or key in line:
                    c[key] = c.get(key, 0) + 1
        r.stats = c
        return r
    results = vlib.run_many(one, range(shards))
    for r in results:
        rep.counters(r.stats)
    for i in (30, 40, 50):
        ln = vlib.read_line(results[0].trace, i)
        rep.sample(ln[:500])
    rep.traces = sum(r.nlines for r in results)
    vlib.absorb_trace_results(rep, results)
    require(rep, ['"outcome":"value"', '"outcome":"err"', '"outcome":"accepted"', '"outcome":"rejected"'], "C19")
    # move texts handed to an engine in the middle of a game (after moves, take-backs, refused moves, new games)
    engine_api(work, vh, rep, "C19", seed, tier)
    rep.assumptions = ["a panic inside Decode / Engine.Move is caught by recover() in the calling goroutine and reported as a crash",
                       "which non-canonical strings are accepted is not prescribed; canonical = Fen!Canonical (strict grammar, e.p. target on rank 3 or 6, re-encodes to itself)",
                       "canonical lower-case coordinate notation must be accepted for legal moves; other spellings are only required not to be accepted for something that is not a legal move"]
    return rep.finish(work)


# ----------------------------------------------------------------------------------------
@check("C20")
def c20(work, tier, seed):
    rep = Report("C20", tier, seed)
    vh = vlib.build_harness(work)
    quick = tier == "quick"
    mc_chess(work, rep, tier, ["MirrorInv"])
    shards = 8 if quick else 16

    def one(i):
        trace = work.path("engines%d.ndjson" % i)
        vlib.run_harness(work, vh, ["engines", "-seed", seed * 100 + i, "-n", 9 if quick else 400, "-plies", 24 if quick else 60, "-out", trace])
        r = vlib.validate_trace(work, "TraceEngines", ["C20"], trace, timeout=3300, heap="4g")
        c = {"book": 0, "engines": 0}
        for line in open(trace):
            if line.startswith('{"book"') or '"op":"book"' in line[:200]:
                c["book"] += 1
            elif '"op":"engines"' in line:
                c["engines"] += 1
        r.stats = c
        return r
    results = vlib.run_many(one, range(shards))
    for r in results:
        rep.counters(r.stats)
    rep.traces = rep.cov.get("engines", 0)
    rep.sample(vlib.read_line(results[0].trace, 1)[:600])
    rep.sample(vlib.read_line(results[0].trace, 30)[:1500])
    vlib.absorb_trace_results(rep, results)
    require(rep, ["book", "engines"], "C20")
    rep.extra["book_keys_probed"] = "every position within two plies of the start position, for the SARGON and BERNSTEIN books"
    rep.assumptions = ["mirror pairs are produced by playing the mirrored game (start FEN mirrored at string level, moves mirrored), so last-move and castled-flag inputs mirror too; TLC checks the logged mirror = Chess!Mirror",
                       "move filters are called the way the searches call them: selection obtained at the parent, predicate evaluated after the move is pushed",
                       "SARGON's evaluation is only required to be finite (it is not colour-blind by design: it is relative to the root of a search)"]
    return rep.finish(work)


# ----------------------------------------------------------------------------------------
@check("C10")
def c10(work, tier, seed):
    rep = Report("C10", tier, seed)
    vh = vlib.build_harness(work)
    quick = tier == "quick"
    mc_board(work, rep, tier)
    shards = 8 if quick else 16

    def one(i):
        trace = work.path("ucipos%d.ndjson" % i)
        vlib.run_harness(work, vh, ["ucipos", "-seed", seed * 100 + i, "-n", 60 if quick else 2500, "-cmds", 5 if i % 2 == 0 else 8, "-out", trace])
        r = vlib.validate_trace(work, "TraceUciPos", ["C10", "C14"], trace, timeout=3300, heap="4g")
        c = {}
        for line in open(trace):
            k = line.find('"shape":"')
            if k > 0:
                sh = "shape:" + line[k + 9:line.find('"', k + 9)]
                c[sh] = c.get(sh, 0) + 1
            if '"op":"session"' in line:
                c["session"] = c.get("session", 0) + 1
            if '"op":"readout"' in line:
                c["readout"] = c.get("readout", 0) + 1
            if '"op":"optcmd"' in line:
                c["setoption"] = c.get("setoption", 0) + 1
        r.stats = c
        return r
    results = vlib.run_many(one, range(shards))
    for r in results:
        rep.counters(r.stats)
    rep.traces = rep.cov.get("session", 0)
    for i in (2, 3, 4):
        rep.sample(vlib.read_line(results[0].trace, i)[:700])
    vlib.absorb_trace_results(rep, results)
    require(rep, ["shape:new", "shape:extend", "shape:repeat", "shape:shorten", "shape:same-start-other-line",
                  "shape:fen-number-extension", "shape:ucinewgame", "readout", "setoption"], "C10")
    rep.assumptions = ["commands are handed to the real driver loop through an unbuffered channel and followed by an isready/readyok barrier before the engine is inspected",
                       "the history used for repetition detection is read out at the end of a session by popping a fork of the engine's board to its root; sessions have random lengths, so every prefix length is sampled",
                       "only legal move lists are sent (the property quantifies over those)"]
    return rep.finish(work)


# ----------------------------------------------------------------------------------------
# the concurrent shell

UCI_INV = ["NoPanic", "AtMostOneBest", "ReadyOk", "NoStaleBest"]


def all_actions_taken(r, what, allow=()):
    """Vacuity guard: with -coverage, every action of the model must have generated states in the bounded
    state space (an action never taken means the properties were never exercised against it). `allow`:
    actions that belong to a variant the constants switch off."""
    never = [a for a in r.coverage_zero if a not in allow]
    if never:
        raise Inconclusive("%s: actions never taken in the bounded model (vacuous?): %s" % (what, never))
    return {"actions_taken": len(r.actions) - len(r.coverage_zero), "actions_never_taken": never,
            "actions_of_disabled_variants": sorted(set(r.coverage_zero) & set(allow))}


def mc_uci(work, rep, tier, liveness):
    """TLC on Uci.tla: the intended design satisfies the properties for every interleaving of the
    bounded scripts; each deviation the code first had is rejected by the same model."""
    quick = tier == "quick"
    base = {"MaxCmds": 3 if quick else 4, "NS": 2, "MaxDepth": 2, "IdGuard": "TRUE", "StopOnOk": "TRUE", "ShutdownWaits": "TRUE", "TimerInLoop": "TRUE", "AtomicClaim": "TRUE", "OutCap": 0}
    cfg = vlib.cfg_text(spec="Spec", constants=base, invariants=UCI_INV, view="View")
    r = vlib.tlc(work, "Uci", cfg, workers=vlib.NCPU, timeout=3300, heap="6g" if quick else "16g", name="Uci-safety", coverage=True)
    vlib.need_tlc_ok(r, "Uci safety")
    rep.add_tlc(r)
    info = {"safety": {"states": r.distinct, "constants": base, "wall_s": round(r.wall, 1)}}
    info["safety"].update(all_actions_taken(r, "Uci.tla", allow=("GuiRead",)))  # no back-pressure in this run: nothing queues up
    if liveness:
        lb = dict(base, MaxCmds=2 if quick else 3)
        cfg = vlib.cfg_text(spec="FairSpec", constants=lb, properties=["Answered", "StopAnswered", "LoopReturns"], view="View")
        r = vlib.tlc(work, "Uci", cfg, workers=vlib.NCPU, timeout=3300, heap="6g" if quick else "16g", name="Uci-liveness")
        vlib.need_tlc_ok(r, "Uci liveness")
        rep.add_tlc(r)
        info["liveness"] = {"states": r.distinct, "constants": lb, "wall_s": round(r.wall, 1)}
    # output back-pressure: a one-slot output channel and a GUI that reads when it pleases (safety), eventually
    # (liveness): every send of the loop and of the forwarders can block
    bp = dict(base, MaxCmds=2 if quick else 3, OutCap=1)
    cfg = vlib.cfg_text(spec="Spec", constants=bp, invariants=UCI_INV, view="View")
    r = vlib.tlc(work, "Uci", cfg, workers=vlib.NCPU, timeout=3300, heap="6g" if quick else "16g", name="Uci-backpressure", coverage=True)
    vlib.need_tlc_ok(r, "Uci back-pressure safety")
    rep.add_tlc(r)
    info["backpressure_safety"] = dict({"states": r.distinct, "constants": bp, "wall_s": round(r.wall, 1)}, **all_actions_taken(r, "Uci.tla (OutCap=1)"))
    if liveness and not quick:
        lb = dict(bp, MaxCmds=2)
        cfg = vlib.cfg_text(spec="FairSpec", constants=lb, properties=["Answered", "StopAnswered", "LoopReturns"], view="View")
        r = vlib.tlc(work, "Uci", cfg, workers=vlib.NCPU, timeout=3300, heap="16g", name="Uci-backpressure-liveness")
        vlib.need_tlc_ok(r, "Uci back-pressure liveness")
        rep.add_tlc(r)
        info["backpressure_liveness"] = {"states": r.distinct, "constants": lb, "wall_s": round(r.wall, 1)}
    if not quick:
        # beyond the exhaustive bound: random behaviours of a larger configuration (3 searches, 6 commands, depth 3,
        # two output slots), every invariant evaluated in every state
        big = dict(base, MaxCmds=6, NS=3, MaxDepth=3, OutCap=2)
        cfg = vlib.cfg_text(spec="Spec", constants=big, invariants=UCI_INV)
        r = vlib.tlc(work, "Uci", cfg, workers=vlib.NCPU, timeout=1200, heap="8g", name="Uci-simulate-big",
                     simulate="num=%d" % 20000, extra=["-depth", "120", "-seed", "20261003"])
        if r.error is not None and "violated" in (r.error or ""):
            raise Inconclusive("Uci.tla (simulation of a larger configuration): %s" % r.error)
        info["simulated_larger_configuration"] = {"constants": big, "behaviours_per_worker": 20000, "states": r.generated, "wall_s": round(r.wall, 1)}
    # non-vacuity: the deviations must be rejected
    dev = [("IdGuard", "FALSE", ["NoStaleBest"], []), ("ShutdownWaits", "FALSE", ["NoPanic"], []), ("AtomicClaim", "FALSE", ["AtMostOneBest"], []),
           ("StopOnOk", "FALSE", [], ["StopAnswered"]), ("TimerInLoop", "FALSE", [], ["StopAnswered"])]
    rejected = []
    for name, val, inv, props in dev:
        if props and (not liveness or quick):
            continue
        c = dict(base, MaxCmds=3)
        c[name] = val
        cfg = vlib.cfg_text(spec="FairSpec" if props else "Spec", constants=c, invariants=inv, properties=props, view="View")
        r = vlib.tlc(work, "Uci", cfg, workers=vlib.NCPU, timeout=1500, heap="8g", name="Uci-dev-" + name)
        if r.ok:
            raise Inconclusive("Uci.tla: deviation %s=%s is not rejected (vacuous property)" % (name, val))
        rejected.append("%s=%s" % (name, val))
    info["deviations_rejected"] = rejected
    rep.extra["mc_uci"] = info


def uci_scenarios(work, vh, rep, props, seed, tier, want_real=True):
    quick = tier == "quick"
    jobs = []
    p = vlib.run_harness(work, vh, ["ucisched", "-mode", "directed", "-only", "list", "-out", work.path("list.ndjson")])
    for name in p.stdout.split():
        jobs.append(("dir-" + name, ["-mode", "directed", "-only", name]))
    ns = 6 if quick else 16
    for i in range(ns):
        jobs.append(("stub%d" % i, ["-mode", "stub", "-seed", seed * 100 + i, "-n", 25 if quick else 400, "-delay", [0, 20, 50][i % 3], "-maxus", [100, 400, 1500][i % 3]]))
    # spec -> impl: behaviours generated by TLC from Uci.tla, projected onto the controllable steps
    import simscripts
    nsim = 40 if quick else 1200
    scripts, rsim = simscripts.generate(work, nsim, seed)
    rep.add_tlc(rsim)
    rep.extra["tlc_simulated_behaviours_replayed"] = len(scripts)
    per = max(1, (len(scripts) + 3) // 4)
    for i in range(0, len(scripts), per):
        path = work.path("simscripts%d.json" % (i // per))
        simscripts.write(scripts[i:i + per], path)
        jobs.append(("sim%d" % (i // per), ["-mode", "script", "-scripts", path]))
    if want_real:
        for i in range(4 if quick else 12):
            jobs.append(("real%d" % i, ["-mode", "real", "-seed", seed * 100 + 50 + i, "-n", 8 if quick else 80, "-delay", 20]))

    crash_judged = set()

    def one(job):
        name, args = job
        trace = work.path(name + ".ndjson")
        evlog = work.path(name + ".evlog")
        # (a crash of a scenario process is judged below from the events logged up to it, not wholesale)
        p = vlib.run_harness(work, vh, ["ucisched"] + args + ["-out", trace, "-evlog", evlog], check=False, timeout=3000, crash_verdict=False)
        crash = None
        if p.returncode != 0:
            txt = (p.stdout + p.stderr)
            if "panic:" in txt or "fatal error:" in txt:
                crash = txt[-6000:]
            else:
                raise Inconclusive("ucisched %s failed: %s" % (name, txt[-2000:]))
        # a crash leaves a scenario without its events line: drop it for validation
        lines = open(trace).read().splitlines() if os.path.exists(trace) else []
        if crash and lines and '"op":"scenario"' in lines[-1]:
            last = lines[-1]
            lines = lines[:-1]
            # the events of the crashed scenario were logged as they were recorded: judge them, with a final
            # crash event (TraceUci: c16.crash; c04.go-unanswered-driver-crashed if a go was awaiting its answer)
            try:
                ev = [json.loads(x) for x in open(evlog).read().splitlines() if x.strip()]
                if ev and ev[0].get("op") == "scenario":
                    events = ev[1:] + [{"seq": len(ev), "g": 0, "role": "harness", "name": "harness.crash", "args": []}]
                    lines += [json.dumps(ev[0], separators=(",", ":")), json.dumps({"op": "events", "events": events, "infeasible": [], "crashed": True}, separators=(",", ":"))]
                    crash_judged.add(name)
            except Exception:
                pass
            open(trace, "w").write("\n".join(lines) + ("\n" if lines else ""))
        else:
            last = None
        r = None
        if lines:
            r = vlib.validate_trace(work, "TraceUci", props, trace, timeout=3000, heap="4g")
        return name, r, crash, last
    results = vlib.run_many(one, jobs, workers=min(vlib.NCPU, 12))
    tr = []
    unsettled_at = []
    for name, r, crash, last in results:
        if crash:
            d = os.path.join(vlib.OUTROOT, "replay", rep.prop)
            os.makedirs(d, exist_ok=True)
            path = os.path.join(d, "crash-%s-seed%d.txt" % (name, seed))
            open(path, "w").write("scenario: %s\n\n%s" % (last, crash))
            print("NOTE scenario process died (Go panic), trace in %s" % path)
            if "C16" in props and name not in crash_judged:
                rep.fail_events["c16.crash"] = rep.fail_events.get("c16.crash", 0) + 1
                rep.violations.append(("c16.crash", path))
        if r is not None:
            tr.append(r)
            n = r.nlines // 2
            rep.traces += n
            for note in r.notes:
                if note.startswith("unsettled|"):
                    rep.counters({"unsettled": 1})
                    unsettled_at.append((r.trace, int(note.split("|")[1])))
                else:
                    rep.counters({note: 1})
            rep.counters({"scenarios:" + name.rstrip("0123456789"): n})
    if tr:
        rep.sample(vlib.read_line(tr[0].trace, 1)[:800])
        rep.sample(vlib.read_line(tr[0].trace, 2)[:1500])
    vlib.absorb_trace_results(rep, tr)
    # scenarios that did not come to rest within the limit: a loaded machine or a driver that is stuck.
    # They are run again, one after the other with nothing else running, with a long limit; what does not come
    # to rest then is reported (c16.does-not-come-to-rest / c04.go-unanswered-driver-stuck by TraceUci)
    unsettled = rep.cov.get("unsettled", 0)
    if unsettled_at:
        again, seen = [], set()
        for trace, lineno in unsettled_at:
            rec = json.loads(vlib.read_line(trace, lineno - 1))
            if rec.get("op") != "scenario" or rec["name"] in seen:
                continue
            seen.add(rec["name"])
            again.append({k: rec[k] for k in ("name", "steps", "stub", "engine", "hash", "noise", "depth", "book", "seed", "delay") if k in rec})
            if len(again) >= 8:
                break
        path = work.path("again.json")
        json.dump(again, open(path, "w"))
        name, r, crash, last = one(("again", ["-mode", "script", "-scripts", path, "-final", "-settle", 20000]))
        rep.extra["scenarios_run_again_alone"] = len(again)
        if crash:
            d = os.path.join(vlib.OUTROOT, "replay", rep.prop)
            os.makedirs(d, exist_ok=True)
            cpath = os.path.join(d, "crash-%s-seed%d.txt" % (name, seed))
            open(cpath, "w").write("scenario: %s\n\n%s" % (last, crash))
            if "C16" in props:
                rep.fail_events["c16.crash"] = rep.fail_events.get("c16.crash", 0) + 1
                rep.violations.append(("c16.crash", cpath))
        if r is not None:
            vlib.absorb_trace_results(rep, [r])
    if unsettled * 3 > max(1, rep.traces):
        raise Inconclusive("UCI scenarios: %d of %d scenarios did not come to rest in time (machine too loaded?)" % (unsettled, rep.traces))
    answered = sum(v for k, v in rep.cov.items() if k.startswith("scenario|") and not k.endswith("best=0"))
    if answered < 5:
        raise Inconclusive("UCI scenarios: too few answered searches (%d)" % answered)


@check("C16")
def c16(work, tier, seed):
    rep = Report("C16", tier, seed)
    vh = vlib.build_harness(work)
    mc_uci(work, rep, tier, liveness=False)
    uci_scenarios(work, vh, rep, ["C16"], seed, tier)
    rep.assumptions = ["schedules are perturbed only by delaying goroutines at hook points (always a legal schedule); the sections whose order defines 'superseded' (command dequeue, ensureInactive, go activation, completion CAS and its sends) are serialised by the harness, so their recorded order is the real one",
                       "a go is superseded when the loop starts processing a later position / go / ucinewgame; a bestmove is attributed to the completion that won the compare-and-swap",
                       "a panic in any goroutine kills the scenario process: reported as c16.crash with the scenario and the Go panic trace",
                       "Halt waits for the first iteration by design; a gated stub search's first iteration is released when the loop waits for it"]
    return rep.finish(work)


@check("C04")
def c04(work, tier, seed):
    rep = Report("C04", tier, seed)
    vh = vlib.build_harness(work)
    mc_uci(work, rep, tier, liveness=True)
    uci_scenarios(work, vh, rep, ["C04"], seed, tier)
    rep.assumptions = ["legality of a bestmove is judged by Chess!Legal in the game the last position command describes (oracle built in TLA+ from the command text), at the moment the completion was decided",
                       "'answered' is judged at quiescence (every search goroutine exited or parked at a stub gate, every forwarder exited, loop idle)",
                       "real engines: morlock (hash on/off), TUROCHAMP, SARGON, BERNSTEIN with noise and books on/off, depths 1-2, movetime, clocks, infinite+stop"]
    return rep.finish(work)


# ----------------------------------------------------------------------------------------
@check("C15")
def c15(work, tier, seed):
    import subprocess
    import shutil
    rep = Report("C15", tier, seed)
    quick = tier == "quick"
    vh = vlib.build_harness(work)
    # (1) the model of the harness: all interleavings of search goroutine, cancel helper, consumers and Halt callers
    runs = []
    for limit, mate in ((0, 0), (2, 0), (3, 2), (0, 3), (2, 3)) if not quick else ((0, 0), (3, 2), (2, 3)):
        consts = {"MaxDepth": 4 if quick else 5, "Limit": limit, "MateAt": mate, "Callers": "{1, 2}" if quick else "{1, 2, 3}", "Grid": 400 if quick else 4000,
                  "StoreFirst": "TRUE", "WaitInit": "TRUE", "LockLate": "TRUE"}
        cfg = vlib.cfg_text(spec="FairSpec", constants=consts,
                            invariants=["StreamInOrder", "StopsWhenItShould", "NeverPastLimit", "HaltAfterDepth1", "HaltAtLeastReported", "HaltReturnsCompleted"],
                            properties=["HaltedExits", "HaltReturnsEventually"])
        r = vlib.tlc(work, "MCIterative", cfg, workers=8, timeout=3000, heap="8g", name="MCIterative-%d-%d" % (limit, mate), coverage=True)
        vlib.need_tlc_ok(r, "MCIterative limit=%d mate=%d" % (limit, mate))
        rep.add_tlc(r)
        runs.append(dict({"limit": limit, "mate": mate, "states": r.distinct}, **all_actions_taken(r, "Iterative.tla", allow=("HaltLock",))))
    rep.extra["mc_iterative"] = runs
    # non-vacuity: the other order of store / publish, and of wait / quit in Halt, must be rejected
    rejected = []
    for name, inv in (("StoreFirst", "HaltAtLeastReported"), ("WaitInit", "HaltAfterDepth1"), ("LockLate", "HaltReturnsEventually")):
        consts = {"MaxDepth": 3, "Limit": 0, "MateAt": 0, "Callers": "{1, 2}", "Grid": 10, "StoreFirst": "TRUE", "WaitInit": "TRUE", "LockLate": "TRUE"}
        consts[name] = "FALSE"
        live = inv == "HaltReturnsEventually"
        cfg = vlib.cfg_text(spec="FairSpec" if live else "Spec", constants=consts, invariants=[] if live else [inv], properties=[inv] if live else [])
        r = vlib.tlc(work, "MCIterative", cfg, workers=4, timeout=600, heap="4g", name="MCIterative-dev-" + name)
        if r.ok or not (("Invariant %s is violated" % inv) in (r.out or "") or (live and ("Temporal property %s was violated" % inv) in (r.out or ""))):
            raise Inconclusive("Iterative.tla: deviation %s=FALSE is not rejected by %s (vacuous property?)" % (name, inv))
        rejected.append("%s=FALSE violates %s" % (name, inv))
    rep.extra["mc_iterative_deviations_rejected"] = rejected
    # (2) unbounded proof of the time-control lemma (TLAPS); reported either way, the TLC grid is the baseline
    d = work.sub("tlaps")
    for f in ("TimeControl.tla", "TimeControlProof.tla"):
        shutil.copy(os.path.join(vlib.SPEC, f), d)
    try:
        p = subprocess.run(["tlapm", "--threads", "8", "TimeControlProof.tla"], cwd=d, capture_output=True, text=True, timeout=600)
        txt = p.stdout + p.stderr
        import re
        m = re.search(r"All (\d+) obligations? proved", txt)
        rep.extra["tlaps_time_control_lemma"] = ("proved: %s obligations" % m.group(1)) if m else ("not proved: " + txt[-300:])
    except Exception as ex:  # noqa
        rep.extra["tlaps_time_control_lemma"] = "not run: %s" % ex
    # (3) conformance
    jobs = []
    for i in range(3 if quick else 12):
        jobs.append(("stream%d" % i, ["-mode", "stream", "-seed", seed * 100 + i, "-n", 10 if quick else 80]))
    for i in range(3 if quick else 12):
        jobs.append(("halt%d" % i, ["-mode", "halt", "-seed", seed * 100 + 30 + i, "-n", 60 if quick else 1500]))
    jobs.append(("limits", ["-mode", "limits", "-seed", seed, "-n", 4000 if quick else 200000]))

    def one(job):
        name, args = job
        trace = work.path(name + ".ndjson")
        vlib.run_harness(work, vh, ["iterative"] + args + ["-out", trace], timeout=3000)
        r = vlib.validate_trace(work, "TraceIter", ["C15"], trace, timeout=3000, heap="4g")
        c = {}
        for line in open(trace):
            for key in ("iterrun", "iterhalt", "limits"):
                if '"op":"%s"' % key in line:
                    c[key] = c.get(key, 0) + 1
            if '"op":"iterrun"' in line:
                e = json.loads(line)
                if e["halted"]:
                    c["run-halted"] = c.get("run-halted", 0) + 1
                if any(x["score"]["t"] == "M" for x in e["direct"]):
                    c["run-with-mate"] = c.get("run-with-mate", 0) + 1
                if e["tt"]:
                    c["run-with-table"] = c.get("run-with-table", 0) + 1
        r.stats = c
        return r
    results = vlib.run_many(one, jobs)
    for r in results:
        rep.counters(r.stats)
    rep.traces = rep.cov.get("iterrun", 0) + rep.cov.get("iterhalt", 0)
    rep.sample(vlib.read_line(results[0].trace, 1)[:900])
    rep.sample(vlib.read_line(results[-1].trace, 5)[:300])
    vlib.absorb_trace_results(rep, results)
    require(rep, ["iterrun", "iterhalt", "limits", "run-halted", "run-with-mate"], "C15")
    # the limit an analysis started through the engine runs under: the requested one (0 = explicitly none), else
    # the engine's default
    engine_api(work, vh, rep, "C15", seed, tier)
    # the limits the searches behind the UCI driver derive from the clocks of the go commands (hook iter.limits):
    # the hard limit never exceeds what the go command left the side to move
    def clocks(i):
        trace = work.path("clocks%d.ndjson" % i)
        p = vlib.run_harness(work, vh, ["ucisched", "-mode", "clocks" if i == 0 else "stub", "-seed", seed * 100 + 70 + i, "-n", 40 if quick else 600, "-delay", [0, 20][i % 2], "-maxus", 200,
                                        "-out", trace, "-evlog", work.path("clocks%d.evlog" % i)], check=False, timeout=3000)
        if p.returncode != 0:
            raise Inconclusive("ucisched (clocks) failed: %s" % (p.stdout + p.stderr)[-2000:])
        r = vlib.validate_trace(work, "TraceUci", ["C15"], trace, timeout=3000, heap="4g")
        r.stats = {"limits-derived-from-go-clocks": sum(line.count('"name":"iter.limits"') for line in open(trace))}
        return r
    cres = vlib.run_many(clocks, range(2 if quick else 8))
    for r in cres:
        rep.counters(r.stats)
    vlib.absorb_trace_results(rep, cres)
    require(rep, ["limits-derived-from-go-clocks"], "C15")
    rep.assumptions = ["the published depths come from the hooks (exact even if the capacity-1 PV channel drops an intermediate depth for the consumer); scores/PVs are compared for the depths the draining consumer received",
                       "the oracle for each depth is the same search run directly at that depth on a fresh fork without a table (itself validated against Search.tla by C03); PVs are compared only with the table off",
                       "'reported before the halt was requested' is read off the controller's event sequence: iter.published events recorded before the harness's halt.call mark",
                       "time-control limits: nanosecond-exact for remaining times below 2^31 ns, whole-millisecond multiples of 2*(moves+1) up to 24 h; the unbounded lemma hard <= remaining is proved by TLAPS"]
    return rep.finish(work)


# ----------------------------------------------------------------------------------------
@check("C18")
def c18(work, tier, seed):
    rep = Report("C18", tier, seed)
    quick = tier == "quick"
    vh = vlib.build_harness(work)
    # the model side: searching never changes the engine's game and is a function of its inputs --
    # Search.tla's reference value is a function by construction; MCSearch checks the algorithm returns it
    mc_search(work, rep, "quick", ["FullWindowExact"])
    shards = 6 if quick else 16

    def one(i):
        trace = work.path("det%d.ndjson" % i)
        vlib.run_harness(work, vh, ["determinism", "-seed", seed * 100 + i, "-n", 12 if quick else 160, "-out", trace], timeout=3300)
        # the same cases once more in a second process, in reverse order: what a search returns must not depend
        # on what the process searched before (caches keyed by less than the game state)
        trace2 = work.path("det%d-reversed.ndjson" % i)
        vlib.run_harness(work, vh, ["determinism", "-seed", seed * 100 + i, "-n", 12 if quick else 160, "-reversed", "-out", trace2], timeout=3300)
        with open(trace, "a") as f:
            f.write(open(trace2).read())
        r = vlib.validate_trace(work, "TraceDet", ["C18"], trace, timeout=3000, heap="4g")
        c = {}
        for line in open(trace):
            k = line.find('"how":"')
            h = "how:" + line[k + 7:line.find('"', k + 7)]
            c[h] = c.get(h, 0) + 1
            if "noise=off" not in line:
                c["noise-on"] = c.get("noise-on", 0) + 1
        r.stats = c
        return r
    results = vlib.run_many(one, range(shards))
    for r in results:
        rep.counters(r.stats)
    rep.traces = sum(r.nlines for r in results)
    rep.sample(vlib.read_line(results[0].trace, 1)[:900])
    vlib.absorb_trace_results(rep, results)
    require(rep, ["how:first", "how:after-unrelated-search", "how:repeat-same-engine", "how:new-engine", "how:other-hash-seed",
                  "how:concurrent", "how:other-process-reversed-order", "noise-on"], "C18")
    rep.assumptions = ["key = (engine, hash on/off, start FEN, move list, depth, noise amount and seed); with the hash table on the game is set up anew before every run (no table carried over)",
                       "the hash seed is NOT part of the key when noise is off: results must not depend on it",
                       "engines: morlock, TUROCHAMP, SARGON, BERNSTEIN as their main() builds them; four engines run concurrently in the concurrent phase"]
    return rep.finish(work)
