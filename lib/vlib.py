"""Shared machinery of the check driver: building the harness from /repo's working tree,
running TLC (model checking and trace validation), sharding, evidence, known findings.

Verdict discipline (DESIGN.md section 7):
  exit 0  every explored case held (known findings are printed as KNOWN-FINDING lines)
  exit 1  + "VIOLATION property=<id> replay=<path>": the real code produced an event the
          specification forbids, and it is not a listed known finding
  exit 2  inconclusive (build failure, harness crash, TLC error/time-out, vacuous run)
"""
import concurrent.futures as cf
import json
import os
import re
import shutil
import subprocess
import sys
import time

ROOT = os.path.dirname(os.path.dirname(os.path.abspath(__file__)))
REPO = os.environ.get("VERIF_REPO", "/repo")
# runs against a scratch copy of the repository leave /verif/evidence and /verif/replay alone
# checks against a scratch copy of the repository (bin/seedtest) write next to that copy, not into /verif
OUTROOT = ROOT if REPO == "/repo" else os.path.join("/tmp", "verif-scratch-out", os.path.basename(REPO.rstrip("/")))
SPEC = os.path.join(ROOT, "spec")
HARNESS = os.path.join(ROOT, "harness")
JAR = "/opt/veriftools/tla/tla2tools.jar:/opt/veriftools/tla/CommunityModules-deps.jar"
NCPU = os.cpu_count() or 4


class Inconclusive(Exception):
    pass


def log(*a):
    print(*a, file=sys.stderr, flush=True)


# ----------------------------------------------------------------------------------------
# work directory

class CrashInAnchoredCode(Exception):
    """The code under test panicked inside a file the property is anchored in, on an input the harness
    generated (valid by construction): the behaviour the property describes was not delivered."""
    def __init__(self, args, where, text):
        Exception.__init__(self, "panic in %s" % where)
        self.hargs, self.where, self.text = args, where, text


def anchored_files(prop):
    for l in open(os.path.join(ROOT, "properties.jsonl")):
        p = json.loads(l)
        if p["id"] == prop:
            return set(p["anchors"]["files"])
    return set()


PANIC_FRAME_RE = re.compile(r"^\s+(/\S+?)/((?:pkg|cmd)/\S+\.go):(\d+)", re.M)


def crash_site(text, prop):
    """First frame of a Go panic trace that lies in the repository under test; returned (as file:line) if that
    file is one the property is anchored in."""
    if "panic:" not in text and "fatal error:" not in text:
        return None
    repo = os.environ.get("VERIF_REPO", "/repo").rstrip("/")
    for m in PANIC_FRAME_RE.finditer(text[text.find("goroutine "):] if "goroutine " in text else text):
        if m.group(1).rstrip("/") == repo:
            return "%s:%s" % (m.group(2), m.group(3)) if m.group(2) in anchored_files(prop) else None
    return None


class Work:
    def __init__(self, prop, tier):
        self.prop = prop
        self.dir = os.path.join(ROOT, ".work", "%s-%s-%d" % (prop, tier, os.getpid()))
        shutil.rmtree(self.dir, ignore_errors=True)
        os.makedirs(self.dir)
        self.n = 0

    def path(self, name):
        return os.path.join(self.dir, name)

    def sub(self, name):
        self.n += 1
        d = os.path.join(self.dir, "%s-%d" % (name, self.n))
        os.makedirs(d)
        return d

    def cleanup(self):
        if os.environ.get("VERIF_KEEP"):
            log("work directory kept:", self.dir)
            return
        shutil.rmtree(self.dir, ignore_errors=True)


# ----------------------------------------------------------------------------------------
# building the harness against /repo's current working tree

def go_env(work):
    env = dict(os.environ)
    env.update({
        "GOFLAGS": "-mod=mod", "GOPROXY": "off", "GOSUMDB": "off", "GOTOOLCHAIN": "local",
        "VERIF_SCRATCH": work.dir,
    })
    return env


def build_harness(work, race=False):
    """go build -tags verif of the harness; the morlock module is replaced by /repo, so the
    code under test is whatever the working tree contains right now."""
    src = HARNESS
    if REPO != "/repo":
        # checks against a scratch copy of the repository (VERIF_REPO): build from a private copy of the
        # harness module whose replace directive points there; /repo and /verif/harness stay untouched
        src = work.path("harness-src")
        if not os.path.exists(src):
            shutil.copytree(HARNESS, src)
            gm = open(os.path.join(src, "go.mod")).read().replace("=> /repo", "=> " + REPO)
            open(os.path.join(src, "go.mod"), "w").write(gm)
    shutil.copy(os.path.join(REPO, "go.sum"), os.path.join(src, "go.sum"))
    out = work.path("vh-race" if race else "vh")
    cmd = ["go", "build", "-tags", "verif"] + (["-race"] if race else []) + ["-o", out, "./cmd/vh"]
    t = time.time()
    p = subprocess.run(cmd, cwd=src, env=go_env(work), capture_output=True, text=True)
    if p.returncode != 0:
        raise Inconclusive("harness build failed:\n" + p.stdout + p.stderr)
    log("built harness in %.1fs" % (time.time() - t))
    return out


def run_harness(work, vh, args, timeout=1800, check=True, env_extra=None, stdin=None, crash_verdict=True):
    env = go_env(work)
    if env_extra:
        env.update(env_extra)
    p = subprocess.run([vh] + [str(a) for a in args], env=env, capture_output=True, text=True,
                       timeout=timeout, cwd=work.dir, input=stdin)
    if p.returncode != 0 and crash_verdict:
        where = crash_site(p.stderr or "", getattr(work, "prop", ""))
        if where:
            raise CrashInAnchoredCode([str(a) for a in args], where, (p.stderr or "")[-6000:])
    if check and p.returncode != 0:
        raise Inconclusive("harness %s failed (rc=%d):\n%s" % (args[:3], p.returncode, (p.stdout + p.stderr)[-4000:]))
    return p


def run_many(fn, items, workers=None):
    workers = workers or NCPU
    with cf.ThreadPoolExecutor(max_workers=workers) as ex:
        return list(ex.map(fn, items))


# ----------------------------------------------------------------------------------------
# TLC

FAIL_RE = re.compile(r'^"FAIL\|(\d+)\|\{(.*)\}"\s*$')
NOTE_RE = re.compile(r'^"NOTE\|(.*)"\s*$')


class TlcResult:
    def __init__(self):
        self.rc = None
        self.out = ""
        self.generated = 0
        self.distinct = 0
        self.depth = 0
        self.fails = []      # [(line, [names])]
        self.notes = []
        self.ok = False      # "Model checking completed. No error has been found."
        self.error = None    # text of a TLC error (invariant violated, evaluation error, ...)
        self.wall = 0.0
        self.coverage_zero = []
        self.actions = {}    # with coverage: action name -> states generated by it


def tlc(work, module, cfg, env=None, workers=1, timeout=900, heap="3g", name=None, extra=None,
        simulate=None, deadlock_cfg=True, dfs=False, coverage=False):
    """Run TLC on spec/<module>.tla with the given cfg text in a private scratch directory."""
    d = work.sub(name or module)
    for f in os.listdir(SPEC):
        if f.endswith(".tla"):
            shutil.copy(os.path.join(SPEC, f), d)
    with open(os.path.join(d, module + ".cfg"), "w") as f:
        f.write(cfg)
    e = dict(os.environ)
    if env:
        e.update({k: str(v) for k, v in env.items()})
    java = ["java", "-XX:+UseParallelGC", "-XX:ParallelGCThreads=%d" % max(2, min(8, workers)),
            "-Xmx" + heap, "-Xss512m", "-Djava.io.tmpdir=" + d]
    if dfs:
        java.append("-Dtlc2.tool.queue.IStateQueue=StateDeque")
    cmd = java + ["-cp", JAR, "tlc2.TLC", "-workers", str(workers), "-metadir", os.path.join(d, "meta"),
                  "-noGenerateSpecTE"]
    if coverage:
        cmd += ["-coverage", "1"]
    if simulate:
        cmd += ["-simulate", simulate]
    if extra:
        cmd += extra
    cmd += [module + ".tla"]
    r = TlcResult()
    t = time.time()
    try:
        p = subprocess.run(cmd, cwd=d, env=e, capture_output=True, text=True, timeout=timeout)
        r.rc = p.returncode
        r.out = p.stdout + p.stderr
    except subprocess.TimeoutExpired as ex:
        r.rc = -1
        r.out = (ex.stdout or b"").decode("utf8", "replace") if isinstance(ex.stdout, bytes) else (ex.stdout or "")
        r.error = "timeout after %ds" % timeout
    r.wall = time.time() - t
    for line in r.out.splitlines():
        m = FAIL_RE.match(line)
        if m:
            names = [x.strip().replace('\\"', '').strip('"') for x in m.group(2).split(",") if x.strip()]
            r.fails.append((int(m.group(1)), names))
            continue
        m = NOTE_RE.match(line)
        if m:
            r.notes.append(m.group(1))
            continue
        m = re.match(r"^(\d+) states generated, (\d+) distinct states found", line)
        if m:
            r.generated, r.distinct = int(m.group(1)), int(m.group(2))
        m = re.match(r"^The number of states generated: (\d+)", line)   # simulation mode
        if m:
            r.generated = int(m.group(1))
        m = re.match(r"^The depth of the complete state graph search is (\d+)", line)
        if m:
            r.depth = int(m.group(1))
        if "Model checking completed. No error has been found" in line:
            r.ok = True
        if coverage:
            m = re.match(r"^<(\w+) line \d+, col \d+ to line \d+, col \d+ of module (\w+)>: (\d+):(\d+)\s*$", line)
            if m:
                r.actions[m.group(1)] = int(m.group(4))
    if not r.ok and r.error is None:
        errs = [ln for ln in r.out.splitlines() if ln.startswith("Error:") or "Exception" in ln or "violated" in ln]
        r.error = "\n".join(errs[:6]) or ("TLC exited with rc=%s" % r.rc)
    r.coverage_zero = sorted(a for a, n in r.actions.items() if n == 0)
    r.dir = d
    return r


def cfg_text(spec="Spec", constants=None, invariants=(), properties=(), postcondition=None, view=None,
             constraint=None, deadlock=False, init=None, next=None, action_constraint=None):
    lines = []
    if init:
        lines += ["INIT " + init, "NEXT " + next]
    else:
        lines.append("SPECIFICATION " + spec)
    for k, v in (constants or {}).items():
        lines.append("CONSTANT %s = %s" % (k, v))
    for i in invariants:
        lines.append("INVARIANT " + i)
    for p in properties:
        lines.append("PROPERTY " + p)
    if postcondition:
        lines.append("POSTCONDITION " + postcondition)
    if view:
        lines.append("VIEW " + view)
    if constraint:
        lines.append("CONSTRAINT " + constraint)
    if action_constraint:
        lines.append("ACTION_CONSTRAINT " + action_constraint)
    lines.append("CHECK_DEADLOCK " + ("TRUE" if deadlock else "FALSE"))
    return "\n".join(lines) + "\n"


def tla_set(items):
    return "{" + ", ".join('"%s"' % i for i in items) + "}"


def count_lines(path):
    n = 0
    with open(path, "rb") as f:
        for _ in f:
            n += 1
    return n


def read_line(path, lineno):
    with open(path) as f:
        for i, line in enumerate(f, 1):
            if i == lineno:
                return line
    return None


def validate_trace(work, module, props, trace, timeout=1800, heap="3g", extra_constants=None):
    """Validate one recorded trace file against a trace specification.  Returns TlcResult with
    .nlines; inconclusive unless TLC consumed the whole trace."""
    consts = {"Props": tla_set(props)}
    if extra_constants:
        consts.update(extra_constants)
    cfg = cfg_text(constants=consts, postcondition="Accepted")
    r = tlc(work, module, cfg, env={"TRACE": trace}, workers=1, timeout=timeout, heap=heap,
            name=os.path.basename(trace).replace(".ndjson", ""))
    r.nlines = count_lines(trace)
    r.trace = trace
    r.module = module
    r.extra_constants = extra_constants
    if r.error is None and r.depth - 1 != r.nlines:
        r.error = "trace not consumed: depth %d, lines %d" % (r.depth, r.nlines)
    return r


# ----------------------------------------------------------------------------------------
# known findings

def load_known():
    """known_findings.txt: '#' comments; 'fixed: property=<id> <commit> <what failed>' lines
    (they suppress nothing); 'known: {json}' lines with keys property, assertion, when, what."""
    path = os.path.join(ROOT, "known_findings.txt")
    ret = []
    if os.path.exists(path):
        for line in open(path):
            line = line.strip()
            if line.startswith("known:"):
                k = json.loads(line[len("known:"):])
                k["status"] = "known"
                ret.append(k)
    return ret


def match_known(known, prop, assertion, event):
    """A known finding matches a failure when property and assertion name agree and every
    key/value of its 'when' clause is found in the event's 'sig' (signature) object."""
    for k in known:
        if k.get("status") != "known" or k.get("property") != prop:
            continue
        if k.get("assertion") and k["assertion"] != assertion:
            continue
        sig = (event or {}).get("sig", {}) if isinstance(event, dict) else {}
        if all(sig.get(a) == b for a, b in (k.get("when") or {}).items()):
            return k
    return None


# ----------------------------------------------------------------------------------------
# reporting

class Report:
    def __init__(self, prop, tier, seed, level="model_checking"):
        self.prop, self.tier, self.seed, self.level = prop, tier, seed, level
        self.t0 = time.time()
        self.states = 0
        self.transitions = 0
        self.traces = 0
        self.events = 0
        self.samples = []
        self.cov = {}
        self.violations = []     # (assertion, replay path)
        self.known_hits = {}     # what -> count
        self.assumptions = []
        self.exhaustive = False
        self.extra = {}
        self.known = load_known()
        shutil.rmtree(os.path.join(OUTROOT, "replay", prop), ignore_errors=True)  # replay files of this run only
        self.fail_events = {}    # assertion -> number of failing events (all of them)

    def add_tlc(self, r):
        self.states += r.distinct
        self.transitions += r.generated

    def sample(self, s):
        if len(self.samples) < 6:
            txt = s if isinstance(s, str) else json.dumps(s)
            self.samples.append(txt[:1500])

    def counters(self, d):
        for k, v in d.items():
            self.cov[k] = self.cov.get(k, 0) + v

    def violation(self, assertion, event_line, trace, lineno, detail=None, module=None, constants=None):
        """Record a failing event: known finding or violation (writes the replay file)."""
        try:
            ev = json.loads(event_line) if event_line else None
        except Exception:
            ev = None
        k = match_known(self.known, self.prop, assertion, ev)
        if k:
            self.known_hits[k["what"]] = self.known_hits.get(k["what"], 0) + 1
            return
        d = os.path.join(OUTROOT, "replay", self.prop)
        os.makedirs(d, exist_ok=True)
        path = os.path.join(d, "%s-%s-seed%d-%d.json" % (assertion.replace(".", "_"), self.tier, self.seed, len(self.violations)))
        keep = None
        if trace and os.path.exists(trace):
            keep = path.replace(".json", ".ndjson")
            # keep the trace up to and including the failing event (board traces are stateful)
            with open(trace) as f, open(keep, "w") as g:
                for i, line in enumerate(f, 1):
                    g.write(line)
                    if lineno and i >= lineno:
                        break
        with open(path, "w") as f:
            json.dump({"property": self.prop, "assertion": assertion, "event_line": lineno, "event": ev,
                       "trace": keep, "detail": detail, "seed": self.seed, "tier": self.tier,
                       "module": module, "constants": constants,
                       "how": "bin/check --replay " + path}, f, indent=1)
        self.violations.append((assertion, path))

    def crash(self, assertion, hargs, where, text):
        """The harness died with a panic of the code under test inside a file the property is anchored in."""
        d = os.path.join(OUTROOT, "replay", self.prop)
        os.makedirs(d, exist_ok=True)
        path = os.path.join(d, "%s-%s-seed%d.json" % (re.sub(r"[^A-Za-z0-9]+", "_", assertion), self.tier, self.seed))
        with open(path, "w") as f:
            json.dump({"property": self.prop, "assertion": assertion, "kind": "crash", "harness_args": hargs, "panic_at": where,
                       "stderr": text, "seed": self.seed, "tier": self.tier, "how": "bin/check --replay " + path}, f, indent=1)
        self.fail_events[assertion] = self.fail_events.get(assertion, 0) + 1
        self.sample("harness %s died: panic at %s" % (" ".join(hargs[:6]), where))
        self.violations.append((assertion, path))

    def finish(self, work=None):
        cov = {
            "states": max(1, self.states), "transitions": max(1, self.transitions),
            "traces_validated_against_impl": self.traces,
            "events_validated": self.events,
            "samples": self.samples or ["(no sample recorded)"],
            "exhaustive": self.exhaustive,
            "counters": self.cov,
            "known_findings_hit": self.known_hits,
            "failing_events_by_assertion": self.fail_events,
        }
        cov.update(self.extra)
        ev = {
            "property_id": self.prop, "tier": self.tier, "seed": self.seed, "level": self.level,
            "coverage": cov, "assumptions": self.assumptions,
            "wall_s": round(time.time() - self.t0, 2), "violations": len(self.violations),
        }
        os.makedirs(os.path.join(OUTROOT, "evidence"), exist_ok=True)
        with open(os.path.join(OUTROOT, "evidence", self.prop + ".json"), "w") as f:
            json.dump(ev, f, indent=1)
        for what, n in sorted(self.known_hits.items()):
            print("KNOWN-FINDING: property=%s %s (%d events)" % (self.prop, what, n))
        seen = set()
        for a, path in self.violations:
            if a in seen and len(seen) > 20:
                continue
            seen.add(a)
            print("VIOLATION property=%s replay=%s assertion=%s" % (self.prop, path, a))
        if work:
            work.cleanup()
        print("%s %s: %s in %.1fs (states=%d traces=%d events=%d)" % (
            self.prop, self.tier, "VIOLATED" if self.violations else "ok", time.time() - self.t0,
            self.states, self.traces, self.events))
        return 1 if self.violations else 0


def need_tlc_ok(r, what):
    """A model-checking run of the specification itself must succeed; otherwise the run is
    inconclusive (a spec-level error says nothing about the code)."""
    if not r.ok:
        raise Inconclusive("%s: TLC did not complete cleanly: %s\n%s" % (what, r.error, r.out[-3000:]))


def absorb_trace_results(rep, results, max_report=40):
    """Turn the results of validate_trace runs into evidence, violations and known findings."""
    for r in results:
        if r.error is not None and not r.fails:
            raise Inconclusive("trace validation of %s failed: %s\n%s" % (r.trace, r.error, r.out[-3000:]))
        if r.error is not None:
            raise Inconclusive("trace validation of %s incomplete: %s" % (r.trace, r.error))
        rep.add_tlc(r)
        rep.events += r.nlines
        per = {}
        for lineno, names in r.fails:
            line = None
            for nm in names:
                if nm.startswith("harness."):
                    raise Inconclusive("harness precondition failed at %s:%d (%s)" % (r.trace, lineno, nm))
                if nm.startswith("x."):
                    # behaviour beyond the listed properties (specification growth): a note in the evidence
                    notes = rep.extra.setdefault("beyond_listed_properties", {})
                    if nm not in notes:
                        print("NOTE behaviour beyond the listed properties differs from the specification: %s (%s:%d)" % (nm, r.trace, lineno))
                    notes[nm] = notes.get(nm, 0) + 1
                    continue
                per[nm] = per.get(nm, 0) + 1
                rep.fail_events[nm] = rep.fail_events.get(nm, 0) + 1
                if per[nm] > 2:
                    continue  # the first two failing events per assertion and trace get a replay file
                line = line or read_line(r.trace, lineno)
                rep.violation(nm, line, r.trace, lineno, module=getattr(r, "module", None),
                              constants=getattr(r, "extra_constants", None))
