module verif/harness

go 1.21

require github.com/herohde/morlock v0.0.0

require github.com/seekerror/stdlib v0.0.0-20231216224128-fab4c1e73ebe // indirect

replace github.com/herohde/morlock => /repo
