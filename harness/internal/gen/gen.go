// Package gen drives real morlock boards and positions and records what they report
// (impl -> spec direction of the conformance check). Nothing here judges anything: every
// verdict is TLC's, evaluating the TLA+ specifications over the recorded events.
package gen

import (
	"fmt"
	"math/rand"
	"regexp"
	"strconv"
	"strings"

	"github.com/herohde/morlock/pkg/board"
	"github.com/herohde/morlock/pkg/board/fen"
	"github.com/herohde/morlock/pkg/eval"
	"verif/harness/internal/out"
	"verif/harness/internal/proj"
)

type M = out.M

// Flags selects which events are recorded.
type Flags struct {
	Gen   bool // "gen": move lists with metadata (C01)
	Views bool // "views": every view of the position + codec round trip (C02 C06 C14)
	Board bool // board programme events with full records (C02 C05 C07 C08 C14)
	Prev  bool // re-read the previous position after each push (C02)
	Deriv bool // "derived": capturers of every square, pins against king and queen (C06)
}

type G struct {
	R     *rand.Rand
	W     *out.Writer
	F     Flags
	Count map[string]int // coverage counters (by the code's own classification; only used to detect vacuous runs)
}

func New(seed int64, w *out.Writer, f Flags) *G {
	return &G{R: rand.New(rand.NewSource(seed)), W: w, F: f, Count: map[string]int{}}
}

// ---------------------------------------------------------------------------------------
// self-contained position events

// GenEvent records the move lists of a position.
func (g *G) GenEvent(p *board.Position, turn board.Color) {
	pseudo := p.PseudoLegalMoves(turn)
	var ps [][]int
	for _, m := range pseudo {
		_, ok := p.Move(m)
		ps = append(ps, append(proj.MoveMeta(m), proj.B2I(ok)))
		if ok {
			g.Count["legal:"+m.Type.String()]++
			if m.IsPromotion() {
				g.Count["promo:"+m.Promotion.String()]++
			}
		} else {
			g.Count["illegal:"+m.Type.String()]++
		}
	}
	legal := [][]int{}
	for _, m := range p.LegalMoves(turn) {
		legal = append(legal, proj.Move(m))
	}
	if p.IsChecked(turn) {
		g.Count["in-check"]++
		if len(legal) == 0 {
			g.Count["checkmate"]++
		}
	} else if len(legal) == 0 {
		g.Count["stalemate"]++
	}
	if ps == nil {
		ps = [][]int{}
	}
	g.W.Emit(M{"op": "gen", "pos": proj.Position(p, turn), "pseudo": ps, "legal": legal})
}

// ViewsEvent records every view of a position and the codec round trip.
func (g *G) ViewsEvent(p *board.Position, turn board.Color, np, fm int) {
	pieces := make([][]int, 12)
	for c := board.ZeroColor; c < board.NumColors; c++ {
		for pc := board.ZeroPiece; pc < board.NumPieces; pc++ {
			// two independent readings: the bitboard and the square list
			a := proj.Squares(p.Piece(c, pc))
			var b []int
			for _, s := range p.PieceSquares(c, pc) {
				b = append(b, proj.Sq(s))
			}
			if !sameSet(a, b) {
				a = append(a, -1) // make the disagreement visible to the spec
			}
			pieces[proj.PieceCode(c, pc)-1] = a
		}
	}
	colors := [][]int{proj.Squares(p.Color(board.White)), proj.Squares(p.Color(board.Black))}
	att := make([][]int, 2)
	def := make([][]int, 2)
	for c := board.ZeroColor; c < board.NumColors; c++ {
		att[c] = make([]int, 64)
		def[c] = make([]int, 64)
		for s := 0; s < 64; s++ {
			att[c][s] = proj.B2I(p.IsAttacked(c, proj.FromSq(s)))
			def[c][s] = proj.B2I(p.IsDefended(c, proj.FromSq(s)))
		}
	}
	empty := make([]int, 64)
	for s := 0; s < 64; s++ {
		empty[s] = proj.B2I(p.IsEmpty(proj.FromSq(s)))
	}
	if p.IsChecked(turn) {
		g.Count["view-check"]++
		if p.IsCheckMate(turn) {
			g.Count["view-mate"]++
		}
	}
	str := fen.Encode(p, turn, np, fm)
	ev := M{
		"op": "views", "pos": proj.Position(p, turn), "np": np, "fm": fm,
		"pieces": pieces, "colors": colors, "all": proj.Squares(p.All()), "empty": empty,
		"att": att, "def": def,
		"chk":   []int{proj.B2I(p.IsChecked(board.White)), proj.B2I(p.IsChecked(board.Black))},
		"mate":  proj.B2I(p.IsCheckMate(turn)),
		"ksq":   []int{kingSq(p, board.White), kingSq(p, board.Black)},
		"insuf": proj.B2I(p.HasInsufficientMaterial()),
		"fen":   str,
	}
	dp, dt, dnp, dfm, err := fen.Decode(str)
	if err != nil || dp == nil {
		ev["dec"] = M{"ok": false}
	} else {
		ev["dec"] = M{"ok": true, "pos": proj.Position(dp, dt), "np": dnp, "fm": dfm, "reenc": fen.Encode(dp, dt, dnp, dfm)}
	}
	g.W.Emit(ev)
}

// DerivedEvent records the queries derived from the attack relation.
func (g *G) DerivedEvent(p *board.Position, turn board.Color) {
	caps := make([][][][]int, 2)
	for c := board.ZeroColor; c < board.NumColors; c++ {
		caps[c] = make([][][]int, 64)
		for s := 0; s < 64; s++ {
			list := [][]int{}
			for _, pl := range eval.FindCapture(p, c, proj.FromSq(s)) {
				list = append(list, []int{proj.Sq(pl.Square), proj.PieceCode(pl.Color, pl.Piece)})
			}
			caps[c][s] = list
		}
	}
	var pins []M
	for c := board.ZeroColor; c < board.NumColors; c++ {
		for _, k := range []board.Piece{board.King, board.Queen, board.Rook} {
			res := [][]int{}
			for _, pin := range eval.FindPins(p, c, k) {
				res = append(res, []int{proj.Sq(pin.Attacker), proj.Sq(pin.Pinned), proj.Sq(pin.Target)})
				g.Count["pin"]++
			}
			pins = append(pins, M{"side": int(c), "kind": proj.Kind(k), "res": res})
		}
	}
	// "is this square attacked / defended by pieces of these kinds": a few kind lists, with and without pawns
	lists := [][]board.Piece{{board.King}, {board.Pawn}, {board.Queen, board.Rook, board.Bishop}, {board.King, board.Queen},
		{board.Queen, board.Rook, board.Knight, board.Bishop}, {board.Knight, board.Pawn}, {board.King, board.Queen, board.Rook, board.Knight, board.Bishop, board.Pawn},
		// the order of a list means nothing: the pawn first, in the middle, a kind named twice
		{board.Pawn, board.Rook}, {board.Pawn, board.King, board.Queen, board.Rook, board.Knight, board.Bishop}, {board.Bishop, board.Pawn, board.Knight},
		{board.Rook, board.Queen, board.Rook}, {board.Pawn, board.Pawn, board.Queen}}
	var by []M
	for _, l := range lists {
		kinds := []int{}
		for _, k := range l {
			kinds = append(kinds, proj.Kind(k))
		}
		for c := board.ZeroColor; c < board.NumColors; c++ {
			att, def := []int{}, []int{}
			for s := 0; s < 64; s++ {
				if p.IsAttackedBy(c, proj.FromSq(s), l) {
					att = append(att, s)
				}
				if p.IsDefendedBy(c, proj.FromSq(s), l) {
					def = append(def, s)
				}
			}
			by = append(by, M{"side": int(c), "kinds": kinds, "attacked": att, "defended": def})
		}
	}
	g.W.Emit(M{"op": "derived", "pos": proj.Position(p, turn), "caps": caps, "pins": pins, "by": by})
}

func kingSq(p *board.Position, c board.Color) int {
	if p.Piece(c, board.King) == 0 {
		return -1
	}
	return proj.Sq(p.KingSquare(c))
}

func sameSet(a, b []int) bool {
	if len(a) != len(b) {
		return false
	}
	m := map[int]bool{}
	for _, x := range a {
		m[x] = true
	}
	for _, x := range b {
		if !m[x] {
			return false
		}
	}
	return true
}

// ---------------------------------------------------------------------------------------
// board programmes

type Live struct {
	ID    int
	B     *board.Board
	floor int // never pop to a ply below this (fork points of live forks)
	nq    int // number of records taken of this board (rotates the order of the moved-piece queries)
}

// Prog is a set of live boards sharing one Zobrist table.
type Prog struct {
	g      *G
	zt     *board.ZobristTable
	boards []*Live
	nextID int
	nrec   int
}

var repRe = regexp.MustCompile(`hash=[0-9a-f]+ \((-?\d+)\)`)

// Rec is everything a board reports.
func (pr *Prog) Rec(l *Live) M {
	b := l.B
	last, last2 := []int{}, []int{}
	if m, ok := b.LastMove(); ok {
		last = proj.MoveMeta(m)
	}
	if m, ok := b.SecondToLastMove(); ok {
		last2 = proj.MoveMeta(m)
	}
	reps := -1
	if mm := repRe.FindStringSubmatch(b.String()); mm != nil {
		reps, _ = strconv.Atoi(mm[1])
	}
	// the moved-piece queries in rotating order, the last one being the one the NEXT record of this board
	// begins with: the same query is then asked twice with exactly one operation in between
	limits := []int{1, 2, 100000}
	var moved [3][]int
	for k := 0; k < 3; k++ {
		i := (l.nq + k) % 3
		moved[i] = proj.Squares(b.HasMoved(limits[i]))
	}
	_ = b.HasMoved(limits[(l.nq+1)%3])
	l.nq++
	pr.nrec++
	variants := []M{}
	if pr.nrec%6 == 0 {
		variants = pr.componentVariants(b)
	}
	return M{
		"variants": variants,
		"id":       l.ID, "pos": proj.Position(b.Position(), b.Turn()),
		"hash": proj.Hex(b.Hash()), "scratch": proj.Hex(pr.zt.Hash(b.Position(), b.Turn())),
		"np": b.NoProgress(), "ply": b.Ply(), "fm": b.FullMoves(),
		"castled": []int{proj.B2I(b.HasCastled(board.White)), proj.B2I(b.HasCastled(board.Black))},
		"last":    last, "last2": last2,
		"moved1": moved[0], "moved2": moved[1], "movedAll": moved[2],
		"out": int(b.Result().Outcome), "reason": string(b.Result().Reason), "reps": reps,
		"fen": fen.Encode(b.Position(), b.Turn(), b.NoProgress(), b.FullMoves()),
	}
}

// componentVariants: the current position and the positions that differ from it in exactly one of side to
// move, one castling right, or the en passant target (every file), each with its hash from scratch. The
// identity of a variant is the four-field text it was built from (string surgery, not the code under test).
func (pr *Prog) componentVariants(b *board.Board) []M {
	f := strings.Fields(fen.Encode(b.Position(), b.Turn(), 0, 1))
	if len(f) != 6 {
		return []M{}
	}
	var ret []M
	add := func(place, turn, cr, ep string) {
		id := place + " " + turn + " " + cr + " " + ep
		pos, t, _, _, err := fen.Decode(id + " 0 1")
		if err != nil || pos == nil {
			return
		}
		ret = append(ret, M{"id": id, "hash": proj.Hex(pr.zt.Hash(pos, t))})
	}
	add(f[0], f[1], f[2], f[3])
	rank := "6"
	other := "b"
	if f[1] == "b" {
		rank, other = "3", "w"
	}
	for _, file := range "abcdefgh" {
		if ep := string(file) + rank; ep != f[3] {
			add(f[0], f[1], f[2], ep)
		}
	}
	if f[3] != "-" {
		add(f[0], f[1], f[2], "-")
	}
	add(f[0], other, f[2], "-")
	for _, right := range "KQkq" {
		cr := ""
		for _, c := range "KQkq" {
			has := strings.ContainsRune(f[2], c)
			if c == right {
				has = !has
			}
			if has {
				cr += string(c)
			}
		}
		if cr == "" {
			cr = "-"
		}
		add(f[0], f[1], cr, f[3])
	}
	return ret
}

func (pr *Prog) recs() []M {
	ret := []M{}
	for _, l := range pr.boards {
		ret = append(ret, pr.Rec(l))
	}
	return ret
}

// NewProg starts a programme: a "reset" event (new table seed, no boards).
func (g *G) NewProg(ztSeed int64) *Prog {
	g.W.Emit(M{"op": "reset", "seed": ztSeed})
	return &Prog{g: g, zt: board.NewZobristTable(ztSeed)}
}

// New sets up a board from a FEN.
func (pr *Prog) New(f string) (*Live, error) {
	pos, turn, np, fm, err := fen.Decode(f)
	if err != nil || pos == nil {
		return nil, fmt.Errorf("bad corpus fen %q: %v", f, err)
	}
	l := &Live{ID: pr.nextID, B: board.NewBoard(pr.zt, pos, turn, np, fm), floor: 1}
	pr.nextID++
	pr.boards = append(pr.boards, l)
	if pr.g.F.Board {
		pr.g.W.Emit(M{"op": "new", "id": l.ID, "pos": proj.Position(pos, turn), "np": np, "fm": fm, "fenin": f, "recs": pr.recs()})
	}
	pr.positionEvents(l)
	return l, nil
}

func (pr *Prog) positionEvents(l *Live) {
	if pr.g.F.Gen {
		pr.g.GenEvent(l.B.Position(), l.B.Turn())
	}
	if pr.g.F.Views {
		pr.g.ViewsEvent(l.B.Position(), l.B.Turn(), l.B.NoProgress(), l.B.FullMoves())
	}
	if pr.g.F.Deriv {
		pr.g.DerivedEvent(l.B.Position(), l.B.Turn())
	}
}

// Push plays a pseudo-legal move (legal or not) and records the outcome.
func (pr *Prog) Push(l *Live, m board.Move) bool {
	old := l.B.Position()
	oldTurn := l.B.Turn()
	ok := l.B.PushMove(m)
	if pr.g.F.Board {
		ev := M{"op": "push", "id": l.ID, "m": proj.MoveMeta(m), "ok": ok, "recs": pr.recs()}
		if pr.g.F.Prev {
			ev["prev"] = proj.Position(old, oldTurn) // the position moved from, re-read after the call
		}
		pr.g.W.Emit(ev)
	}
	if ok {
		pr.g.Count["push:"+m.Type.String()]++
		if l.B.Result().Outcome == board.Draw {
			pr.g.Count["draw:"+string(l.B.Result().Reason)]++
		}
		pr.positionEvents(l)
	} else {
		pr.g.Count["push-refused"]++
	}
	return ok
}

// CanPop reports whether a take-back stays within the programme's contract.
func (pr *Prog) CanPop(l *Live) bool {
	return l.B.Ply() > l.floor
}

func (pr *Prog) Pop(l *Live) {
	m, ok := l.B.PopMove()
	pr.g.Count["pop"]++
	if pr.g.F.Board {
		pr.g.W.Emit(M{"op": "pop", "id": l.ID, "ok": ok, "m": proj.MoveMeta(m), "recs": pr.recs()})
	}
}

func (pr *Prog) Fork(l *Live) *Live {
	n := &Live{ID: pr.nextID, B: l.B.Fork(), floor: l.B.Ply()}
	pr.nextID++
	if l.floor < l.B.Ply() {
		l.floor = l.B.Ply()
	}
	pr.boards = append(pr.boards, n)
	pr.g.Count["fork"]++
	if pr.g.F.Board {
		pr.g.W.Emit(M{"op": "fork", "id": l.ID, "new": n.ID, "recs": pr.recs()})
	}
	return n
}

// Adjudicate is called only when the side to move has no legal move.
func (pr *Prog) Adjudicate(l *Live) {
	res := l.B.AdjudicateNoLegalMoves()
	pr.g.Count["adjudicate:"+string(res.Reason)]++
	if pr.g.F.Board {
		pr.g.W.Emit(M{"op": "adj", "id": l.ID, "out": int(res.Outcome), "reason": string(res.Reason), "recs": pr.recs()})
	}
}

// ---------------------------------------------------------------------------------------
// move choice

// LegalOf lists the pseudo-legal moves and which of them are legal.
func LegalOf(b *board.Board) (legal, illegal []board.Move) {
	for _, m := range b.Position().PseudoLegalMoves(b.Turn()) {
		if _, ok := b.Position().Move(m); ok {
			legal = append(legal, m)
		} else {
			illegal = append(illegal, m)
		}
	}
	return
}

func weight(m board.Move) int {
	switch {
	case m.Type == board.EnPassant:
		return 25
	case m.IsCastle():
		return 25
	case m.IsPromotion():
		if m.Promotion == board.Queen {
			return 3
		}
		return 4
	case m.Type == board.Capture:
		return 4
	case m.Type == board.Jump:
		return 2
	case m.Piece == board.King || m.Piece == board.Rook:
		return 2
	default:
		return 1
	}
}

// Pick chooses a move, biased towards the rare kinds.
func (g *G) Pick(moves []board.Move) board.Move {
	total := 0
	for _, m := range moves {
		total += weight(m)
	}
	x := g.R.Intn(total)
	for _, m := range moves {
		x -= weight(m)
		if x < 0 {
			return m
		}
	}
	return moves[len(moves)-1]
}

// PickQuiet prefers reversible moves (to build repetitions and long no-progress runs).
func (g *G) PickQuiet(moves []board.Move) board.Move {
	var quiet []board.Move
	for _, m := range moves {
		if m.Type == board.Normal {
			quiet = append(quiet, m)
		}
	}
	if len(quiet) > 0 && g.R.Intn(12) != 0 {
		return quiet[g.R.Intn(len(quiet))]
	}
	return moves[g.R.Intn(len(moves))]
}

// Reverse finds the legal move that takes the piece that moved two plies ago back.
func Reverse(b *board.Board, legal []board.Move) (board.Move, bool) {
	prev, ok := b.SecondToLastMove()
	if !ok || prev.Type != board.Normal {
		return board.Move{}, false
	}
	for _, m := range legal {
		if m.Type == board.Normal && m.From == prev.To && m.To == prev.From {
			return m, true
		}
	}
	return board.Move{}, false
}
