// Package sched is the harness side of the verif hooks: it records every observation point
// under one lock (a global sequence), serialises the few critical sections whose relative
// order the verdicts depend on, perturbs schedules by delaying goroutines at points (a delay
// is always a legal schedule, so nothing observed this way can be a false alarm), enforces
// directed orderings ("hold goroutine at P until Q has happened") derived from TLC
// behaviours, and detects quiescence.
package sched

import (
	"bytes"
	"encoding/json"
	"io"
	"math/rand"
	"runtime"
	"strconv"
	"strings"
	"sync"
	"time"
)

// Event is one recorded observation point.
type Event struct {
	Seq  int    `json:"seq"`
	G    int    `json:"g"`    // small goroutine index (order of first appearance)
	Role string `json:"role"` // loop | fwd<k> | iter<k> | timer<k> | other<k>
	Name string `json:"name"`
	Args []any  `json:"args"`
}

// Rule holds the goroutine that reaches Point for the Occ-th time (1-based; 0 = every time)
// until point Until has been recorded UntilOcc times, or the timeout expires.
type Rule struct {
	Point    string
	Occ      int
	Until    string
	UntilOcc int
	Timeout  time.Duration
	After    time.Duration // extra delay once the condition holds (a delay is always a legal schedule)
	Late     bool          // hold AFTER the point has been recorded (the goroutine's step is in the trace at its real
	// place); a serialised section the goroutine is in is left open to the others for the duration of the hold
	Fired    bool
	TimedOut bool
}

// Controller implements the hook handler.
type Controller struct {
	mu       sync.Mutex
	cond     *sync.Cond
	events   []Event
	counts   map[string]int
	arrivals map[string]int
	gidx     map[int64]int
	roles    map[int64]string
	nrole    map[string]int
	rnd      *rand.Rand
	Delay    int // probability (percent) of a random delay at a point
	MaxUs    int // maximum delay in microseconds
	Keep     int // record at most this many occurrences of each noisy point (0 = all)
	total    int
	lastLoop string
	Rules    []*Rule
	Log      io.Writer // if set, every recorded event is also written here at once (one JSON line): what a crashed scenario leaves behind

	// ext serialises: command delivery by the harness, ensureInactive, go activation and
	// searchCompleted -- the sections whose relative order decides what "superseded" means.
	ext        sync.Mutex
	extOwner   map[int64]bool
	suspended  map[int64]bool
	inInactive map[int64]bool
	stop       chan struct{}
}

func New(seed int64) *Controller {
	c := &Controller{counts: map[string]int{}, arrivals: map[string]int{}, gidx: map[int64]int{}, roles: map[int64]string{}, nrole: map[string]int{},
		rnd: rand.New(rand.NewSource(seed)), extOwner: map[int64]bool{}, suspended: map[int64]bool{}, inInactive: map[int64]bool{}, stop: make(chan struct{})}
	c.cond = sync.NewCond(&c.mu)
	go func() { // wake up waiters periodically so that they can notice time-outs
		t := time.NewTicker(2 * time.Millisecond)
		defer t.Stop()
		for {
			select {
			case <-t.C:
				c.cond.Broadcast()
			case <-c.stop:
				return
			}
		}
	}()
	return c
}

func (c *Controller) Close() { close(c.stop) }

func goid() int64 {
	var buf [64]byte
	n := runtime.Stack(buf[:], false)
	// "goroutine 123 [running]:"
	f := bytes.Fields(buf[:n])
	id, _ := strconv.ParseInt(string(f[1]), 10, 64)
	return id
}

// noisy points are counted but no longer recorded once Keep occurrences have been logged (a search that
// floods iterations would otherwise produce traces of tens of thousands of events)
var noisy = map[string]bool{"iter.stored": true, "iter.published": true, "uci.fwd.pv": true, "uci.loop.ponder": true,
	"uci.loop.idle": true, "stub.enter": true, "stub.result": true, "out": true}

var opens = map[string]bool{"uci.inactive.begin": true, "uci.go.analyzed": true, "uci.complete.try": true}
var closes = map[string]bool{"uci.inactive.end": true, "uci.go.activated": true, "uci.complete.done": true}

func (c *Controller) roleOf(g int64, name string) string {
	if r, ok := c.roles[g]; ok {
		return r
	}
	kind := "other"
	switch {
	case name == "uci.fwd.start":
		kind = "fwd"
	case name == "iter.start":
		kind = "iter"
	case name == "uci.movetime.fire" || name == "iter.hardlimit.fire":
		kind = "timer"
	case len(name) > 8 && name[:8] == "uci.loop":
		kind = "loop"
	}
	c.nrole[kind]++
	r := kind + strconv.Itoa(c.nrole[kind])
	if kind == "loop" {
		r = "loop"
	}
	c.roles[g] = r
	return r
}

// Handle is the verifhook handler.
func (c *Controller) Handle(name string, kv ...any) {
	g := goid()
	// (a) directed holds: before anything else (in particular before the serialised section)
	c.mu.Lock()
	c.arrivals[name]++
	occ := c.arrivals[name]
	var after time.Duration
	for _, r := range c.Rules {
		if r.Point != name || r.Fired || r.Late || (r.Occ != 0 && r.Occ != occ) {
			continue
		}
		r.Fired = true
		deadline := time.Now().Add(r.Timeout)
		for c.counts[r.Until] < r.UntilOcc {
			if time.Now().After(deadline) {
				r.TimedOut = true
				break
			}
			c.cond.Wait()
		}
		after += r.After
	}
	c.mu.Unlock()
	if after > 0 {
		time.Sleep(after)
	}
	// (b) enter the serialised section before its shared access. Engine.Halt inside ensureInactive is
	// NOT part of the section (it may block for long, and a completion racing with it is exactly
	// what must stay observable): the section is suspended at engine.halt.begin and resumed at
	// engine.halt.end, so that only the accesses to `active` before and after the halt are serialised.
	c.mu.Lock()
	resume := name == "engine.halt.end" && c.suspended[g]
	c.mu.Unlock()
	if opens[name] || resume {
		c.ext.Lock()
	}
	// (c) record
	c.mu.Lock()
	if opens[name] || resume {
		c.extOwner[g] = true
		delete(c.suspended, g)
	}
	if _, ok := c.gidx[g]; !ok {
		c.gidx[g] = len(c.gidx) + 1
	}
	ev := Event{Seq: len(c.events) + 1, G: c.gidx[g], Role: c.roleOf(g, name), Name: name, Args: kv}
	if ev.Args == nil {
		ev.Args = []any{}
	}
	c.counts[name]++
	c.total++
	if ev.Role == "loop" {
		c.lastLoop = name
	}
	if !(c.Keep > 0 && noisy[name] && c.counts[name] > c.Keep) {
		c.events = append(c.events, ev)
		c.logLocked(ev)
	}
	c.cond.Broadcast()
	// numbering: search goroutines and forwarders are numbered in the order they record their
	// first point; the loop is held (a delay, hence a legal schedule) until the goroutine it has
	// just spawned has done so, which makes "iter<k>" / "fwd<k>" the k-th launch / activation
	if name == "engine.analyze.launched" {
		c.waitLocked("iter.start", c.counts["engine.analyze.launched"], 2*time.Second)
	}
	if name == "uci.loop.idle" || name == "uci.loop.exit" {
		c.waitLocked("uci.fwd.start", c.counts["uci.go.activated"], 2*time.Second)
	}
	// late holds: the point is recorded; while held, the serialised section (if any) is open to the others
	for _, r := range c.Rules {
		if r.Point != name || r.Fired || !r.Late || (r.Occ != 0 && r.Occ != occ) {
			continue
		}
		r.Fired = true
		held := c.extOwner[g]
		if held {
			c.ext.Unlock()
		}
		deadline := time.Now().Add(r.Timeout)
		for c.counts[r.Until] < r.UntilOcc {
			if time.Now().After(deadline) {
				r.TimedOut = true
				break
			}
			c.cond.Wait()
		}
		c.mu.Unlock()
		if r.After > 0 {
			time.Sleep(r.After)
		}
		if held {
			c.ext.Lock()
		}
		c.mu.Lock()
	}
	inside := c.extOwner[g]
	owner := closes[name] && inside
	if name == "engine.halt.begin" && inside && c.inInactive[g] {
		owner = true
		c.suspended[g] = true
	}
	if name == "uci.inactive.begin" {
		c.inInactive[g] = true
	}
	if name == "uci.inactive.end" {
		delete(c.inInactive, g)
		delete(c.suspended, g)
	}
	if owner {
		delete(c.extOwner, g)
	}
	delay := 0
	if c.Delay > 0 && !inside && name != "iter.stored" && c.rnd.Intn(100) < c.Delay {
		delay = 1 + c.rnd.Intn(c.MaxUs)
	}
	c.mu.Unlock()
	// (d) leave the section after its last shared access
	if owner {
		c.ext.Unlock()
	}
	if delay > 0 {
		time.Sleep(time.Duration(delay) * time.Microsecond)
	}
}

func (c *Controller) waitLocked(name string, n int, timeout time.Duration) {
	deadline := time.Now().Add(timeout)
	for c.counts[name] < n && time.Now().Before(deadline) {
		c.cond.Wait()
	}
}

// RoleIndex returns the number k of the calling goroutine's role "<kind><k>" (0 if unknown).
func (c *Controller) RoleIndex(kind string) int {
	g := goid()
	c.mu.Lock()
	defer c.mu.Unlock()
	r := c.roles[g]
	if len(r) > len(kind) && r[:len(kind)] == kind {
		k, _ := strconv.Atoi(r[len(kind):])
		return k
	}
	return 0
}

func (c *Controller) loopIdleLocked() bool {
	return c.lastLoop == "uci.loop.idle"
}

// Total is the number of points reached so far (recorded or not).
func (c *Controller) Total() int {
	c.mu.Lock()
	defer c.mu.Unlock()
	return c.total
}

// LoopIdle reports whether the loop's last recorded point is its idle point.
func (c *Controller) LoopIdle() bool {
	c.mu.Lock()
	defer c.mu.Unlock()
	return c.loopIdleLocked()
}

// Deliver hands a command to the loop: it waits until the loop is idle (in its select, holding
// nothing), enters the serialised section, runs fn (the channel send) and waits until the loop
// has recorded the dequeue. Returns false if the loop never became idle or never took it.
func (c *Controller) Deliver(fn func() bool, timeout time.Duration) bool {
	deadline := time.Now().Add(timeout)
	for {
		c.mu.Lock()
		idle := c.loopIdleLocked()
		c.mu.Unlock()
		if idle {
			break
		}
		if time.Now().After(deadline) {
			return false
		}
		time.Sleep(200 * time.Microsecond)
	}
	c.ext.Lock()
	defer c.ext.Unlock()
	c.mu.Lock()
	before := c.counts["uci.loop.cmd"]
	c.mu.Unlock()
	if !fn() {
		return false
	}
	return c.WaitCount("uci.loop.cmd", before+1, timeout)
}

// WaitCount waits until the named point has been recorded at least n times.
func (c *Controller) WaitCount(name string, n int, timeout time.Duration) bool {
	deadline := time.Now().Add(timeout)
	c.mu.Lock()
	defer c.mu.Unlock()
	for c.counts[name] < n {
		if time.Now().After(deadline) {
			return false
		}
		c.cond.Wait()
	}
	return true
}

func (c *Controller) Count(name string) int {
	c.mu.Lock()
	defer c.mu.Unlock()
	return c.counts[name]
}

// Mark records a harness-side event in the same sequence.
func (c *Controller) Mark(name string, kv ...any) {
	c.mu.Lock()
	if kv == nil {
		kv = []any{}
	}
	c.counts[name]++
	c.total++
	keep := !(c.Keep > 0 && noisy[name] && c.counts[name] > c.Keep)
	if name == "out" && len(kv) > 0 {
		if line, ok := kv[0].(string); ok && !strings.HasPrefix(line, "info") {
			keep = true
		}
	}
	if keep {
		ev := Event{Seq: len(c.events) + 1, G: 0, Role: "harness", Name: name, Args: kv}
		c.events = append(c.events, ev)
		c.logLocked(ev)
	}
	c.cond.Broadcast()
	c.mu.Unlock()
}

func (c *Controller) logLocked(ev Event) {
	if c.Log != nil {
		if data, err := json.Marshal(ev); err == nil {
			_, _ = c.Log.Write(append(data, '\n'))
		}
	}
}

// Quiescent: every forwarder and search goroutine that started has exited, no completion is in
// progress, and the loop is idle (its last recorded point is uci.loop.idle) or has exited.
func (c *Controller) quiescentLocked() bool {
	if c.counts["uci.fwd.start"] != c.counts["uci.fwd.exit"] || c.counts["iter.start"] != c.counts["iter.exit"] ||
		c.counts["uci.complete.try"] != c.counts["uci.complete.done"] {
		return false
	}
	return c.lastLoop == "" || c.lastLoop == "uci.loop.idle" || c.lastLoop == "uci.loop.exit"
}

// WaitQuiescent waits for quiescence to hold continuously for the settle time.
func (c *Controller) WaitQuiescent(timeout, settle time.Duration) bool {
	deadline := time.Now().Add(timeout)
	for time.Now().Before(deadline) {
		c.mu.Lock()
		q := c.quiescentLocked()
		n := len(c.events)
		c.mu.Unlock()
		if q {
			time.Sleep(settle)
			c.mu.Lock()
			q2 := c.quiescentLocked() && len(c.events) == n
			c.mu.Unlock()
			if q2 {
				return true
			}
			continue
		}
		time.Sleep(500 * time.Microsecond)
	}
	return false
}

// Events returns a copy of the recorded events.
func (c *Controller) Events() []Event {
	c.mu.Lock()
	defer c.mu.Unlock()
	return append([]Event{}, c.events...)
}
