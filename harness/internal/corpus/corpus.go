// Package corpus holds the curated start positions (legal positions chosen to make the
// rare rules fire within a few plies) used by the trace generators.
package corpus

// Entry is a start position with a label describing what it is for.
type Entry struct {
	Name string
	Fen  string
}

// Perft are the six standard perft positions (chessprogramming.org/Perft_Results).
var Perft = []Entry{
	{"start", "rnbqkbnr/pppppppp/8/8/8/8/PPPPPPPP/RNBQKBNR w KQkq - 0 1"},
	{"kiwipete", "r3k2r/p1ppqpb1/bn2pnp1/3PN3/1p2P3/2N2Q1p/PPPBBPPP/R3K2R w KQkq - 0 1"},
	{"perft3", "8/2p5/3p4/KP5r/1R3p1k/8/4P1P1/8 w - - 0 1"},
	{"perft4", "r3k2r/Pppp1ppp/1b3nbN/nP6/BBP1P3/q4N2/Pp1P2PP/R2Q1RK1 w kq - 0 1"},
	{"perft4m", "r2q1rk1/pP1p2pp/Q4n2/bbp1p3/Np6/1B3NBn/pPPP1PPP/R3K2R b KQ - 0 1"},
	{"perft5", "rnbq1k1r/pp1Pbppp/2p5/8/2B5/8/PPP1NnPP/RNBQK2R w KQ - 1 8"},
	{"perft6", "r4rk1/1pp1qppp/p1np1n2/2b1p1B1/2B1P1b1/P1NP1N2/1PP1QPPP/R4RK1 w - - 0 10"},
}

// Rules are positions aimed at particular rules.
var Rules = []Entry{
	// en passant
	{"ep-pinned-rank", "8/8/8/KPp4r/8/8/8/4k3 w - c6 0 2"},
	{"ep-pinned-rank-b", "4K3/8/8/8/kpP4R/8/8/8 b - c3 0 2"},
	{"ep-evades-check", "8/8/8/2k5/3Pp3/8/8/4K3 b - d3 0 1"},
	{"ep-gives-discovered-check", "8/8/8/1k6/2pP4/8/4B3/4K3 b - d3 0 1"},
	{"ep-pinned-diagonal", "8/8/8/8/1k1pP3/8/8/4K1B1 b - e3 0 1"},
	{"ep-both-sides", "4k3/8/8/8/pPp5/8/8/4K3 b - b3 0 1"},
	{"ep-white-both", "4k3/8/8/PpP5/8/8/8/4K3 w - b6 0 2"},
	{"jump-targets", "4k3/pppppppp/8/1P1P1P1P/p1p1p1p1/8/PPPPPPPP/4K3 w - - 0 1"},
	{"jump-blocked", "4k3/p6p/P6n/8/8/n6p/P6P/4K3 w - - 0 1"},
	// castling
	{"castle-all", "r3k2r/8/8/8/8/8/8/R3K2R w KQkq - 0 1"},
	{"castle-all-b", "r3k2r/8/8/8/8/8/8/R3K2R b KQkq - 0 1"},
	{"castle-through-check", "r3k2r/8/8/8/8/3r1r2/8/R3K2R w KQkq - 0 1"},
	{"castle-into-check", "r3k2r/8/8/8/8/2r3r1/8/R3K2R w KQkq - 0 1"},
	{"castle-out-of-check", "r3k2r/8/8/8/8/4r3/8/R3K2R w KQkq - 0 1"},
	{"castle-b-file-attacked", "r3k2r/8/8/8/8/8/8/1R2K2R b Kkq - 0 1"},
	{"castle-rook-attacked", "r3k2r/8/8/8/8/8/6b1/R3K2R w KQkq - 0 1"},
	{"castle-blocked", "rn2k1nr/8/8/8/8/8/8/RN2K1NR w KQkq - 0 1"},
	{"castle-partial-rights", "r3k2r/8/8/8/8/8/8/R3K2R w Kq - 0 1"},
	{"rook-takes-rook-home", "r3k2r/8/8/8/8/8/8/R3K2R w KQkq - 4 9"},
	{"bishop-takes-rook-home", "r3k2r/1B4B1/8/8/8/8/1b4b1/R3K2R w KQkq - 0 1"},
	{"knight-takes-rook-home", "r3k2r/5N2/8/8/8/1n6/8/R3K2R b KQkq - 0 1"},
	{"castle-pawn-attacks", "r3k2r/8/8/8/8/8/3p2p1/R3K2R w KQkq - 0 1"},
	{"castle-knight-attacks", "r3k2r/8/8/8/8/4n3/8/R3K2R w KQkq - 0 1"},
	// promotion
	{"promo-both", "1n2k3/P7/8/8/8/8/7p/4K1N1 w - - 0 1"},
	{"promo-both-b", "1n2k3/P7/8/8/8/8/7p/4K1N1 b - - 0 1"},
	{"promo-capture-rook-home", "r3k2r/1P4P1/8/8/8/8/1p4p1/R3K2R w KQkq - 0 1"},
	{"promo-capture-rook-home-b", "r3k2r/1P4P1/8/8/8/8/1p4p1/R3K2R b KQkq - 0 1"},
	{"promo-with-check", "4k3/P7/8/8/8/8/p7/4K3 w - - 0 1"},
	{"promo-many", "n1n1k1n1/PPP1P1PP/8/8/8/8/ppp1p1pp/N1N1K1N1 w - - 0 1"},
	{"underpromo-mate", "8/5P1k/7p/8/8/8/8/6K1 w - - 0 1"},
	// checks
	{"double-check", "4k3/8/8/8/1b6/8/3n4/4K2r w - - 0 1"},
	{"double-check-2", "r3k3/8/8/8/8/2n5/8/R3K2R w KQq - 0 1"},
	{"check-block-capture-flee", "4k3/8/8/8/4r3/8/3N1B2/R3K2R w KQ - 0 1"},
	{"pinned-pieces", "4k3/4r3/8/b7/8/2N5/4B3/q2RK3 w - - 0 1"},
	{"knight-check", "4k3/8/8/8/8/3n4/8/R3K2R w KQ - 0 1"},
	{"pawn-check", "4k3/8/8/8/8/8/3p4/R3K2R w KQ - 0 1"},
	{"stalemate", "7k/5Q2/6K1/8/8/8/8/8 b - - 0 1"},
	{"mate-backrank", "R5k1/5ppp/8/8/8/8/8/4K3 b - - 0 1"},
	{"mate-smothered", "6rk/5Npp/8/8/8/8/8/4K3 b - - 0 1"},
	{"mate-in-one", "6k1/5ppp/8/8/8/8/8/R3K3 w Q - 0 1"},
	{"mate-in-two", "7k/8/5K2/8/8/8/8/R7 w - - 0 1"},
	{"two-rooks-ladder", "6k1/3R4/8/1K6/8/8/4R3/8 b - - 0 1"},
	{"kqk", "8/8/8/3k4/8/8/1Q6/K7 w - - 0 1"},
	{"kbnk", "8/8/8/3k4/8/8/1BN5/K7 w - - 0 1"},
	// material / draws
	{"capture-to-bare-kings", "8/8/8/8/8/2k5/1n6/K7 w - - 0 1"},
	{"capture-to-knk", "8/8/8/8/8/2k5/1nn5/K7 w - - 0 1"},
	{"capture-to-kbkb-same", "8/8/8/8/8/1bk5/1n6/KB6 w - - 0 1"},
	{"kbkb-opposite", "8/8/8/8/8/2k5/bn6/KB6 w - - 0 1"},
	{"underpromo-to-knk", "8/4P3/8/8/8/2k5/8/K7 w - - 0 1"},
	{"fifty-near", "8/8/8/3k4/8/8/1R6/K7 w - - 96 80"},
	{"fifty-near-pawn", "8/8/8/3k4/8/P7/1R6/K7 w - - 97 80"},
	{"fifty-castle", "r3k2r/8/8/8/8/8/8/R3K2R w KQkq - 95 60"},
	{"shuffle-rooks", "r3k2r/8/8/8/8/8/8/R3K2R w - - 0 1"},
	{"shuffle-kings", "8/8/3k4/8/8/3K4/8/8 w - - 0 1"},
	{"shuffle-knights", "1n2k3/8/8/8/8/8/8/1N2K3 w - - 10 20"},
	// odd material
	{"many-queens", "3QQQ1Q/8/8/8/8/8/k7/2K4Q w - - 0 1"},
	{"ten-knights", "NNNNNNNN/8/8/8/8/8/k7/2K3NN w - - 0 1"},
	{"many-bishops", "B1B1B3/1B1B3B/8/8/8/8/k7/2K5 w - - 0 1"},
	{"black-queens", "2k4q/K7/8/8/8/8/8/3qqq1q b - - 0 1"},
	{"full-board", "rnbqkbnr/pppppppp/PPPPPPPP/8/8/pppppppp/PPPPPPPP/RNBQKBNR w KQkq - 0 1"},
	// middlegames
	{"italian", "r1bqk1nr/pppp1ppp/2n5/2b1p3/2B1P3/5N2/PPPP1PPP/RNBQK2R w KQkq - 4 4"},
	{"sicilian", "rnbqkb1r/pp2pppp/3p1n2/8/3NP3/2N5/PPP2PPP/R1BQKB1R b KQkq - 2 5"},
	{"endgame-pawns", "8/pp3k2/2p5/3p4/3P1P2/2P3P1/PP3K2/8 w - - 0 30"},
	{"endgame-rooks", "8/5pk1/6p1/8/3r4/6P1/5PK1/3R4 b - - 3 40"},
	// mated on the back rank with a castling right in hand: castling out of check is not a way out, and the
	// square the king would cross is attacked only "through" the king
	{"mate-with-right-wk", "6k1/8/8/8/8/8/3PPPPP/r3K2R w K - 0 1"},
	{"mate-with-right-wq", "6k1/8/8/8/8/8/3PPPPP/R3K2r w Q - 0 1"},
	{"mate-with-right-bk", "R3k2r/3ppppp/8/8/8/8/8/6K1 b k - 0 1"},
	{"mate-with-right-bq", "r3k2R/3ppppp/8/8/8/8/8/6K1 b q - 0 1"},
	// an en passant target nobody can capture on (what a GUI writes after any double step): it is part of the
	// position all the same
	{"ep-nobody-can-capture-w", "rnbqkbnr/pppppppp/8/8/4P3/8/PPPP1PPP/RNBQKBNR b KQkq e3 0 1"},
	{"ep-nobody-can-capture-b", "rnbqkbnr/pppp1ppp/8/4p3/4P3/8/PPPP1PPP/RNBQKBNR w KQkq e6 0 2"},
	{"ep-nobody-can-capture-endgame", "4k3/8/8/8/4P3/8/8/4K3 b - e3 0 1"},
	// in check with both rights, not mate: the king steps aside
	{"check-with-rights", "4k3/8/8/8/8/8/8/r3K2R w K - 0 1"},
}

// All is every curated position.
func All() []Entry {
	ret := append([]Entry{}, Perft...)
	return append(ret, Rules...)
}
