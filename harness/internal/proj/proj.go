// Package proj projects morlock values onto the plain-integer encoding shared with the
// TLA+ specifications (see DESIGN.md Appendix A). It deliberately uses only the public,
// per-square API (Position.Square etc), never bitboards, so that the projection shares no
// machinery with the code under test.
//
//	square  = rank*8 + file, file a = 0 (a1 = 0, h1 = 7, a8 = 56)
//	piece   = 0 empty, 1..6 white P N B R Q K, 7..12 black P N B R Q K
//	rights  = bit set: 1 K, 2 Q, 4 k, 8 q
//	move    = [from, to, promo] with promo in {0, 2 N, 3 B, 4 R, 5 Q}
package proj

import (
	"fmt"
	"math"

	"github.com/herohde/morlock/pkg/board"
	"github.com/herohde/morlock/pkg/eval"
)

// Sq maps an implementation square to the specification numbering.
func Sq(s board.Square) int {
	return int(s.Rank())*8 + (7 - int(s.File()))
}

// FromSq maps a specification square to the implementation numbering.
func FromSq(s int) board.Square {
	r, f := s/8, s%8
	return board.NewSquare(board.File(7-f), board.Rank(r))
}

// Kind maps an implementation piece to the specification kind (P N B R Q K = 1..6).
func Kind(p board.Piece) int {
	switch p {
	case board.Pawn:
		return 1
	case board.Knight:
		return 2
	case board.Bishop:
		return 3
	case board.Rook:
		return 4
	case board.Queen:
		return 5
	case board.King:
		return 6
	default:
		return 0
	}
}

// FromKind is the inverse of Kind.
func FromKind(k int) board.Piece {
	switch k {
	case 1:
		return board.Pawn
	case 2:
		return board.Knight
	case 3:
		return board.Bishop
	case 4:
		return board.Rook
	case 5:
		return board.Queen
	case 6:
		return board.King
	default:
		return board.NoPiece
	}
}

func PieceCode(c board.Color, p board.Piece) int {
	k := Kind(p)
	if k == 0 {
		return 0
	}
	if c == board.Black {
		return k + 6
	}
	return k
}

// Pos is the specification's position record.
type Pos struct {
	B    []int `json:"b"`
	Turn int   `json:"turn"`
	Cr   int   `json:"cr"`
	Ep   int   `json:"ep"`
}

// BoardArray reads the 64 squares through Position.Square.
func BoardArray(p *board.Position) []int {
	b := make([]int, 64)
	for s := board.ZeroSquare; s < board.NumSquares; s++ {
		if c, pc, ok := p.Square(s); ok {
			b[Sq(s)] = PieceCode(c, pc)
		}
	}
	return b
}

func Ep(p *board.Position) int {
	if sq, ok := p.EnPassant(); ok {
		return Sq(sq)
	}
	return -1
}

func Position(p *board.Position, turn board.Color) Pos {
	return Pos{B: BoardArray(p), Turn: int(turn), Cr: int(p.Castling()), Ep: Ep(p)}
}

// Move is [from, to, promo].
func Move(m board.Move) []int {
	return []int{Sq(m.From), Sq(m.To), Kind(m.Promotion)}
}

// MoveMeta is [from, to, promo, type, piece, capture].
func MoveMeta(m board.Move) []int {
	return []int{Sq(m.From), Sq(m.To), Kind(m.Promotion), int(m.Type), Kind(m.Piece), Kind(m.Capture)}
}

// Squares converts a bitboard to a sorted square list (through ToSquares).
func Squares(bb board.Bitboard) []int {
	ret := []int{}
	for s := board.ZeroSquare; s < board.NumSquares; s++ {
		if bb.IsSet(s) {
			ret = append(ret, Sq(s))
		}
	}
	return ret
}

// SquareSet converts a list of specification squares to a bitboard.
func SquareSet(list []int) board.Bitboard {
	var bb board.Bitboard
	for _, s := range list {
		bb |= board.BitMask(FromSq(s))
	}
	return bb
}

func B2I(b bool) int {
	if b {
		return 1
	}
	return 0
}

func Hex(h board.ZobristHash) string {
	return fmt.Sprintf("%016x", uint64(h))
}

// Score is the specification's score record: t in "L" (lost), "W" (won), "M" (mate in m
// plies, negative: being mated), "H" (heuristic with integer key v), "I" (invalid).
type Score struct {
	T string `json:"t"`
	M int    `json:"m"`
	V int    `json:"v"`
}

// PawnsKey maps a float32 to an integer key that is order-isomorphic on non-NaN values
// and commutes with negation: sign(p) * bits(|p|), 0 for +-0.
func PawnsKey(p eval.Pawns) int {
	f := float32(p)
	if f == 0 {
		return 0
	}
	if f < 0 {
		return -int(math.Float32bits(-f))
	}
	return int(math.Float32bits(f))
}

// KeyPawns is the inverse of PawnsKey.
func KeyPawns(k int) eval.Pawns {
	if k == 0 {
		return 0
	}
	if k < 0 {
		return eval.Pawns(-math.Float32frombits(uint32(-k)))
	}
	return eval.Pawns(math.Float32frombits(uint32(k)))
}

func ScoreOf(s eval.Score) Score {
	switch s.Type {
	case eval.Heuristic:
		return Score{T: "H", V: PawnsKey(s.Pawns)}
	case eval.MateInX:
		return Score{T: "M", M: int(s.Mate)}
	case eval.Inf:
		return Score{T: "W"}
	case eval.NegInf:
		return Score{T: "L"}
	default:
		return Score{T: "I"}
	}
}

func ToScore(s Score) eval.Score {
	switch s.T {
	case "H":
		return eval.HeuristicScore(KeyPawns(s.V))
	case "M":
		return eval.MateInXScore(int8(s.M))
	case "W":
		return eval.InfScore
	case "L":
		return eval.NegInfScore
	default:
		return eval.InvalidScore
	}
}

// Outcome classes shared with the specification.
func Outcome(r board.Result) int {
	return int(r.Outcome)
}
