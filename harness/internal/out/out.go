// Package out writes ndjson trace files.
package out

import (
	"bufio"
	"encoding/json"
	"fmt"
	"os"
)

type Writer struct {
	f *os.File
	w *bufio.Writer
	N int
}

func Create(path string) *Writer {
	f, err := os.Create(path)
	if err != nil {
		Fatalf("create %v: %v", path, err)
	}
	return &Writer{f: f, w: bufio.NewWriterSize(f, 1<<20)}
}

// Emit writes one event.
func (w *Writer) Emit(ev any) {
	data, err := json.Marshal(ev)
	if err != nil {
		Fatalf("marshal: %v", err)
	}
	w.w.Write(data)
	w.w.WriteByte('\n')
	w.N++
}

func (w *Writer) Flush() {
	w.w.Flush()
}

func (w *Writer) Close() {
	w.w.Flush()
	w.f.Close()
}

// Fatalf reports a harness-side failure (never a verdict about the code under test): exit 2.
func Fatalf(format string, args ...any) {
	fmt.Fprintf(os.Stderr, "HARNESS-ERROR: "+format+"\n", args...)
	os.Exit(2)
}

// M is a convenience alias for JSON objects.
type M = map[string]any
