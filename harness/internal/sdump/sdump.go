// Package sdump builds game-tree dumps from real boards through the public board API and
// runs the real searches on them, recording results, table traffic and board records.
// The dumps are the input of Search.tla's reference semantics (MM, QMM): the reference
// negamax lives in TLA+, not here.
package sdump

import (
	"context"
	"sync"

	"github.com/herohde/morlock/cmd/bernstein/bernstein"
	"github.com/herohde/morlock/cmd/sargon/sargon"
	"github.com/herohde/morlock/cmd/turochamp/turochamp"
	"github.com/herohde/morlock/pkg/board"
	"github.com/herohde/morlock/pkg/board/fen"
	"github.com/herohde/morlock/pkg/eval"
	"github.com/herohde/morlock/pkg/search"
	"verif/harness/internal/proj"
)

// Node is a dumped tree node (see spec/Search.tla for the meaning of the fields).
type Node struct {
	Mv []int   `json:"mv"`
	X  int     `json:"x"`
	D  int     `json:"d"`
	C  int     `json:"c"`
	N  int     `json:"n"`
	V  int     `json:"v"`
	H  string  `json:"h"`
	K  []*Node `json:"k"`
}

// HashEval is a position-determined test evaluator with small "adversarial" integer values
// derived from the position hash (many ties, both signs).
type HashEval struct{}

func (HashEval) Evaluate(ctx context.Context, b *board.Board) eval.Pawns {
	h := uint64(b.Hash())
	h ^= h >> 29
	h *= 0x9E3779B97F4A7C15
	h ^= h >> 32
	return eval.Pawns(int(h%7) - 3)
}

// CapturesOnly is a generic quiescence exploration: captures and promotions.
func CapturesOnly(ctx context.Context, b *board.Board) (board.MovePriorityFn, board.MovePredicateFn) {
	return search.MVVLVA, func(m board.Move) bool {
		return m.IsCaptureOrEnPassant() || m.IsPromotion()
	}
}

// ForcingOnly is a forward-pruning exploration for the MAIN search: captures, promotions and moves that give
// check (the predicate is called after the move has been pushed, so the board shows the reply side). Nodes
// with legal moves none of which is selected are common under it.
func ForcingOnly(ctx context.Context, b *board.Board) (board.MovePriorityFn, board.MovePredicateFn) {
	return search.MVVLVA, func(m board.Move) bool {
		return m.IsCaptureOrEnPassant() || m.IsPromotion() || b.Position().IsChecked(b.Turn())
	}
}

// Config describes one search configuration: the real search object and the functions
// the dump needs to mirror its move selection and leaf evaluation.
type Config struct {
	Name     string
	Cfg      string // "static" | "qs" | "sargon"
	Search   search.Search
	Explore  search.Exploration // main search selection (nil = all moves)
	QExplore search.Exploration // quiescence selection
	Eval     eval.Evaluator     // static evaluator
	Reset    func(ctx context.Context, b *board.Board)
	Quiet    search.QuietSearch // the leaf evaluation as a QuietSearch (for direct window calls)
	PosDet   bool               // evaluation is determined by the position alone
}

// NewConfig returns a fresh instance of a named configuration.
func NewConfig(name string) *Config {
	switch name {
	case "morlock":
		leaf := search.Leaf{Eval: eval.Material{}}
		return &Config{Name: name, Cfg: "static", Search: search.AlphaBeta{Eval: leaf}, Eval: eval.Material{}, Quiet: leaf, PosDet: true}
	case "hash":
		leaf := search.Leaf{Eval: HashEval{}}
		return &Config{Name: name, Cfg: "static", Search: search.AlphaBeta{Eval: leaf}, Eval: HashEval{}, Quiet: leaf, PosDet: true}
	case "minimax":
		return &Config{Name: name, Cfg: "static", Search: search.Minimax{Eval: search.Leaf{Eval: HashEval{}}}, Eval: HashEval{}, Quiet: search.Leaf{Eval: HashEval{}}, PosDet: true}
	case "minimax-material":
		return &Config{Name: name, Cfg: "static", Search: search.Minimax{Eval: search.Leaf{Eval: eval.Material{}}}, Eval: eval.Material{}, Quiet: search.Leaf{Eval: eval.Material{}}, PosDet: true}
	case "qsmat":
		q := search.Quiescence{Explore: CapturesOnly, Eval: search.Leaf{Eval: eval.Material{}}}
		return &Config{Name: name, Cfg: "qs", Search: search.AlphaBeta{Eval: q}, QExplore: CapturesOnly, Eval: eval.Material{}, Quiet: q, PosDet: true}
	case "qshash":
		q := search.Quiescence{Explore: CapturesOnly, Eval: search.Leaf{Eval: HashEval{}}}
		return &Config{Name: name, Cfg: "qs", Search: search.AlphaBeta{Eval: q}, QExplore: CapturesOnly, Eval: HashEval{}, Quiet: q, PosDet: true}
	case "turochamp":
		q := search.Quiescence{Explore: turochamp.ConsiderableMovesOnly, Eval: search.Leaf{Eval: turochamp.Eval{}}}
		return &Config{Name: name, Cfg: "qs", Search: search.AlphaBeta{Eval: q}, QExplore: turochamp.ConsiderableMovesOnly, Eval: turochamp.Eval{}, Quiet: q}
	case "sargon":
		points := &sargon.Points{}
		q := sargon.OnePlyIfChecked{Leaf: search.Leaf{Eval: points}}
		s := sargon.Hook{Eval: search.AlphaBeta{Explore: sargon.SkipUnderPromotions, Eval: q}, Hook: points}
		return &Config{Name: name, Cfg: "sargon", Search: s, Explore: sargon.SkipUnderPromotions, Eval: points, Reset: points.Reset, Quiet: q}
	case "forcing":
		leaf := search.Leaf{Eval: HashEval{}}
		return &Config{Name: name, Cfg: "static", Search: search.AlphaBeta{Explore: ForcingOnly, Eval: leaf}, Explore: ForcingOnly, Eval: HashEval{}, Quiet: leaf, PosDet: true}
	case "bernstein":
		tab := bernstein.PlausibleMoveTable{Limit: 7}
		ev := bernstein.Eval{Factor: 8}
		leaf := search.Leaf{Eval: ev}
		return &Config{Name: name, Cfg: "static", Search: search.AlphaBeta{Explore: tab.Explore, Eval: leaf}, Explore: tab.Explore, Eval: ev, Quiet: leaf}
	}
	return nil
}

// Dumper builds tree dumps.
type Dumper struct {
	C     *Config
	Nodes int
	Limit int              // abort when the dump exceeds this many nodes
	Paths map[string][]int // hash -> shallowest path (1-based child indices)
	AllV  bool             // evaluate every node (needed to judge table entries at any depth)
	over  bool
	// Ponder restricts the dump the way search.Context.Ponder restricts the search: along the line only
	// the line's move is explored (whatever the configuration's own selection says); below it, as usual.
	Ponder   []board.Move
	linePath []int
}

func pathEq(a, b []int) bool {
	if len(a) != len(b) {
		return false
	}
	for i := range a {
		if a[i] != b[i] {
			return false
		}
	}
	return true
}

func (d *Dumper) Over() bool { return d.over }

func (d *Dumper) node(b *board.Board, path []int) *Node {
	d.Nodes++
	if d.Limit > 0 && d.Nodes > d.Limit {
		d.over = true
	}
	n := &Node{Mv: []int{}, K: []*Node{}, H: proj.Hex(b.Hash())}
	n.D = proj.B2I(b.Result().Outcome == board.Draw)
	n.C = proj.B2I(b.Position().IsChecked(b.Turn()))
	if d.Paths != nil {
		if old, ok := d.Paths[n.H]; !ok || len(path) < len(old) {
			d.Paths[n.H] = append([]int{}, path...)
		}
	}
	return n
}

func legalMoves(b *board.Board) []board.Move {
	var ret []board.Move
	for _, m := range b.Position().PseudoLegalMoves(b.Turn()) {
		if _, ok := b.Position().Move(m); ok {
			ret = append(ret, m)
		}
	}
	return ret
}

// Main dumps the main-search part below b to the given depth.
func (d *Dumper) Main(ctx context.Context, b *board.Board, depth int, path []int) *Node {
	n := d.node(b, path)
	legal := legalMoves(b)
	n.N = len(legal)
	if d.over {
		return n
	}
	if n.D == 1 && (len(path) > 0 || depth == 0) {
		return n // a drawn root still lists its moves (one level: every line below it is drawn too)
	}
	if depth == 0 {
		d.leaf(ctx, b, n)
		return n
	}
	if d.AllV {
		n.V = proj.PawnsKey(d.C.Eval.Evaluate(ctx, b))
	}
	explore := board.MovePredicateFn(search.IsAnyMove)
	if d.C.Explore != nil {
		_, explore = d.C.Explore(ctx, b) // obtained at the parent, as the search does
	}
	onLine := len(path) < len(d.Ponder) && pathEq(path, d.linePath)
	if onLine {
		explore = d.Ponder[len(path)].Equals
	}
	for i, m := range legal {
		if !b.PushMove(m) {
			panic("legal move refused")
		}
		x := explore(m) // evaluated after the move has been pushed, as the search does
		if onLine && x {
			d.linePath = append(append([]int{}, path...), i+1)
		}
		var kid *Node
		if x {
			kid = d.Main(ctx, b, depth-1, append(path, i+1))
		} else {
			kid = &Node{K: []*Node{}, H: proj.Hex(b.Hash())} // not explored: a stub
		}
		kid.Mv = proj.Move(m)
		kid.X = proj.B2I(x)
		b.PopMove()
		n.K = append(n.K, kid)
	}
	return n
}

func (d *Dumper) leaf(ctx context.Context, b *board.Board, n *Node) {
	switch d.C.Cfg {
	case "static":
		n.V = proj.PawnsKey(d.C.Eval.Evaluate(ctx, b))
	case "qs":
		d.quiet(ctx, b, n)
	case "sargon":
		n.V = proj.PawnsKey(d.C.Eval.Evaluate(ctx, b))
		if n.C == 1 {
			for _, m := range legalMoves(b) {
				b.PushMove(m)
				kid := d.node(b, nil)
				kid.Mv = proj.Move(m)
				kid.X = 1
				kid.V = proj.PawnsKey(d.C.Eval.Evaluate(ctx, b))
				b.PopMove()
				n.K = append(n.K, kid)
			}
		}
	}
}

// quiet fills in the quiescence part below a node: stand-pat value and explored replies.
func (d *Dumper) quiet(ctx context.Context, b *board.Board, n *Node) {
	n.V = proj.PawnsKey(d.C.Eval.Evaluate(ctx, b))
	if d.over {
		return
	}
	_, explore := d.C.QExplore(ctx, b)
	for _, m := range legalMoves(b) {
		b.PushMove(m)
		if explore(m) {
			kid := d.node(b, nil)
			kid.Mv = proj.Move(m)
			kid.X = 1
			kid.N = len(legalMoves(b))
			if kid.D == 0 {
				d.quiet(ctx, b, kid)
			}
			n.K = append(n.K, kid)
		}
		b.PopMove()
	}
}

// Quiet dumps the quiescence tree of a position (for direct QuietSearch calls).
func (d *Dumper) Quiet(ctx context.Context, b *board.Board) *Node {
	n := d.node(b, nil)
	n.N = len(legalMoves(b))
	if n.D == 0 {
		d.quiet(ctx, b, n)
	}
	return n
}

// ---------------------------------------------------------------------------------------

// TTEvent is one logged table write.
type TTEvent struct {
	H      string     `json:"h"`
	Bound  int        `json:"bound"`
	Ply    int        `json:"ply"`
	Depth  int        `json:"depth"`
	Score  proj.Score `json:"score"`
	Mv     []int      `json:"mv"`
	Stored int        `json:"ok"`
	Path   []int      `json:"path"`
	Known  int        `json:"known"` // 1 if the hash is a node of the dump (path valid)
}

// RecTT wraps a real table and logs the writes (and counts reads / hits).
type RecTT struct {
	Inner  search.TranspositionTable
	mu     sync.Mutex
	Writes []TTEvent
	Reads  int
	Hits   int
	Off    bool
}

func (t *RecTT) Read(hash board.ZobristHash) (search.Bound, int, eval.Score, board.Move, bool) {
	b, d, s, m, ok := t.Inner.Read(hash)
	t.mu.Lock()
	t.Reads++
	if ok {
		t.Hits++
	}
	t.mu.Unlock()
	return b, d, s, m, ok
}

func (t *RecTT) Write(hash board.ZobristHash, bound search.Bound, ply, depth int, score eval.Score, move board.Move) bool {
	ok := t.Inner.Write(hash, bound, ply, depth, score, move)
	if !t.Off {
		t.mu.Lock()
		t.Writes = append(t.Writes, TTEvent{H: proj.Hex(hash), Bound: int(bound), Ply: ply, Depth: depth,
			Score: proj.ScoreOf(score), Mv: proj.Move(move), Stored: proj.B2I(ok)})
		t.mu.Unlock()
	}
	return ok
}

func (t *RecTT) Size() uint64  { return t.Inner.Size() }
func (t *RecTT) Used() float64 { return t.Inner.Used() }

// Take returns and clears the logged writes, resolving hashes to dump paths.
func (t *RecTT) Take(paths map[string][]int) []TTEvent {
	t.mu.Lock()
	defer t.mu.Unlock()
	ws := t.Writes
	t.Writes = nil
	for i := range ws {
		if p, ok := paths[ws[i].H]; ok {
			ws[i].Path = p
			ws[i].Known = 1
		}
		if ws[i].Path == nil {
			ws[i].Path = []int{}
		}
	}
	if ws == nil {
		ws = []TTEvent{}
	}
	return ws
}

// ---------------------------------------------------------------------------------------

// CountCtx is a context whose Done() counts calls and reports cancellation from the n-th
// call on (the searches poll through ctx.Done() at every node).
type CountCtx struct {
	context.Context
	mu     sync.Mutex
	Polls  int
	At     int // cancel from this poll on (0 = never)
	closed chan struct{}
	open   chan struct{}
}

func NewCountCtx(at int) *CountCtx {
	c := &CountCtx{Context: context.Background(), At: at, closed: make(chan struct{}), open: make(chan struct{})}
	close(c.closed)
	return c
}

func (c *CountCtx) Done() <-chan struct{} {
	c.mu.Lock()
	defer c.mu.Unlock()
	c.Polls++
	if c.At > 0 && c.Polls >= c.At {
		return c.closed
	}
	return c.open
}

func (c *CountCtx) Err() error {
	c.mu.Lock()
	defer c.mu.Unlock()
	if c.At > 0 && c.Polls >= c.At {
		// a search is halted by cancelling its context or by the context's deadline passing: both are "done"
		if c.At%2 == 0 {
			return context.DeadlineExceeded
		}
		return context.Canceled
	}
	return nil
}

// ---------------------------------------------------------------------------------------

// Rec is the board record compared before/after a search.
func Rec(b *board.Board) map[string]any {
	last := []int{}
	if m, ok := b.LastMove(); ok {
		last = proj.Move(m)
	}
	out := int(b.Result().Outcome)
	if out == 0 {
		out = 1 // Unknown and Undecided are one class: not decided
	}
	return map[string]any{
		"fen": fen.Encode(b.Position(), b.Turn(), b.NoProgress(), b.FullMoves()), "hash": proj.Hex(b.Hash()),
		"ply": b.Ply(), "out": out, "reason": string(b.Result().Reason), "last": last,
		"castled": []int{proj.B2I(b.HasCastled(board.White)), proj.B2I(b.HasCastled(board.Black))},
	}
}

// Result is what a search returned.
type Result struct {
	Score proj.Score `json:"score"`
	Pv    [][]int    `json:"pv"`
	Nodes int        `json:"nodes"`
	Err   string     `json:"err"`
}

func ResultOf(nodes uint64, score eval.Score, pv []board.Move, err error) Result {
	r := Result{Score: proj.ScoreOf(score), Nodes: int(nodes), Pv: [][]int{}}
	for _, m := range pv {
		r.Pv = append(r.Pv, proj.Move(m))
	}
	if err != nil {
		if err == search.ErrHalted {
			r.Err = "halted"
		} else {
			r.Err = err.Error()
		}
	}
	return r
}
