// Package ucih runs real engines behind the real UCI driver in-process: the harness owns the
// (unbuffered) command channel and the output channel, so it observes exactly when a command
// has been dequeued by the driver's loop and every line the driver emits, in order.
package ucih

import (
	"context"
	"strings"
	"time"

	"github.com/herohde/morlock/cmd/bernstein/bernstein"
	"github.com/herohde/morlock/cmd/sargon/sargon"
	"github.com/herohde/morlock/cmd/turochamp/turochamp"
	"github.com/herohde/morlock/pkg/engine"
	"github.com/herohde/morlock/pkg/engine/uci"
	"github.com/herohde/morlock/pkg/eval"
	"github.com/herohde/morlock/pkg/search"
)

// EngineSpec names a bundled engine configuration as its main() builds it.
type EngineSpec struct {
	Name  string // morlock | turochamp | sargon | bernstein
	Hash  uint
	Noise uint
	Depth uint
	Book  bool
	Seed  int64 // zobrist (and noise) seed
}

// Build constructs the engine and the driver options the way the cmd/<name>/main.go does.
func Build(ctx context.Context, s EngineSpec) (*engine.Engine, []uci.Option) {
	var root search.Search
	var opts []uci.Option
	eo := []engine.Option{engine.WithOptions(engine.Options{Depth: s.Depth, Hash: s.Hash, Noise: s.Noise}), engine.WithZobrist(s.Seed)}
	switch s.Name {
	case "morlock":
		root = search.AlphaBeta{Eval: search.Leaf{Eval: eval.Material{}}}
		eo = append(eo, engine.WithTable(search.NewMinDepthTranspositionTable(1)))
	case "turochamp":
		root = search.AlphaBeta{Eval: search.Quiescence{Explore: turochamp.ConsiderableMovesOnly, Eval: search.Leaf{Eval: turochamp.Eval{}}}}
	case "sargon":
		points := &sargon.Points{}
		root = sargon.Hook{Eval: search.AlphaBeta{Explore: sargon.SkipUnderPromotions, Eval: sargon.OnePlyIfChecked{Leaf: search.Leaf{Eval: points}}}, Hook: points}
		if s.Book {
			opts = append(opts, uci.UseBook(sargon.NewBook(), s.Seed))
		}
	case "bernstein":
		root = search.AlphaBeta{Explore: bernstein.PlausibleMoveTable{Limit: 7}.Explore, Eval: search.Leaf{Eval: bernstein.Eval{Factor: 8}}}
		if s.Book {
			opts = append(opts, uci.UseBook(bernstein.NewBook(), s.Seed))
		}
	case "linebook":
		// the generic engine with a book built from lines (engine.NewBook) that end in en passant captures
		root = search.AlphaBeta{Eval: search.Leaf{Eval: eval.Material{}}}
		bk, err := engine.NewBook(EpLines())
		if err != nil {
			panic(err)
		}
		opts = append(opts, uci.UseBook(bk, s.Seed))
	default:
		panic("unknown engine " + s.Name)
	}
	return engine.New(ctx, s.Name, "verif", root, eo...), opts
}

// Session is one driver instance.
type Session struct {
	E     *engine.Engine
	D     *uci.Driver
	in    chan string
	out   <-chan string
	Lines []string // every line received so far
	Dead  bool     // the output channel was closed (driver exited)
}

func Start(ctx context.Context, e *engine.Engine, opts ...uci.Option) *Session {
	in := make(chan string) // unbuffered: a send returns when the loop has dequeued the command
	d, out := uci.NewDriver(ctx, e, in, opts...)
	s := &Session{E: e, D: d, in: in, out: out}
	s.Until("uciok", 5*time.Second)
	return s
}

// Send hands a command to the loop. Returns false if the driver did not take it in time.
func (s *Session) Send(line string, timeout time.Duration) bool {
	t := time.NewTimer(timeout)
	defer t.Stop()
	for {
		select {
		case s.in <- line:
			return true
		case l, ok := <-s.out:
			if !ok {
				s.Dead = true
				s.out = nil
				continue
			}
			s.Lines = append(s.Lines, l)
		case <-s.D.Closed():
			s.Dead = true
			return false
		case <-t.C:
			return false
		}
	}
}

// SendNoRead hands a command to the loop WITHOUT reading the driver's output meanwhile (a GUI that writes
// but does not read). Returns false if the driver did not take it in time.
func (s *Session) SendNoRead(line string, timeout time.Duration) bool {
	t := time.NewTimer(timeout)
	defer t.Stop()
	select {
	case s.in <- line:
		return true
	case <-s.D.Closed():
		return false
	case <-t.C:
		return false
	}
}

// Until collects output lines until one has the given prefix. Returns the lines seen
// (including the match) and whether the match arrived in time.
func (s *Session) Until(prefix string, timeout time.Duration) ([]string, bool) {
	var seen []string
	t := time.NewTimer(timeout)
	defer t.Stop()
	for {
		if s.out == nil {
			return seen, false
		}
		select {
		case l, ok := <-s.out:
			if !ok {
				s.Dead = true
				s.out = nil
				return seen, false
			}
			s.Lines = append(s.Lines, l)
			seen = append(seen, l)
			if strings.HasPrefix(l, prefix) {
				return seen, true
			}
		case <-t.C:
			return seen, false
		}
	}
}

// Drain collects whatever arrives within the given time.
func (s *Session) Drain(d time.Duration) []string {
	seen, _ := s.Until("\x00never", d)
	return seen
}

// DrainNow collects every line that is already in the output channel, without waiting.
func (s *Session) DrainNow() {
	for s.out != nil {
		select {
		case l, ok := <-s.out:
			if !ok {
				s.Dead = true
				s.out = nil
				return
			}
			s.Lines = append(s.Lines, l)
		default:
			return
		}
	}
}

// Barrier sends isready and waits for readyok.
func (s *Session) Barrier(timeout time.Duration) ([]string, bool) {
	if !s.Send("isready", timeout) {
		return nil, false
	}
	return s.Until("readyok", timeout)
}

// Quit sends quit and waits for the driver to close.
func (s *Session) Quit(timeout time.Duration) bool {
	if !s.Send("quit", timeout) && !s.Dead {
		return false
	}
	select {
	case <-s.D.Closed():
		return true
	case <-time.After(timeout):
		return false
	}
}

// CloseInput ends the input stream (EOF).
func (s *Session) CloseInput() {
	close(s.in)
}

// EpLines are opening lines that end in an en passant capture, for both colours and every file pair.
func EpLines() []engine.Line {
	files := "abcdefgh"
	var lines []engine.Line
	for f := 0; f < 8; f++ {
		for _, g := range []int{f - 1, f + 1} {
			if g < 0 || g > 7 {
				continue
			}
			wait := 0
			for wait == f || wait == g {
				wait++
			}
			wait2 := 7
			for wait2 == f || wait2 == g {
				wait2--
			}
			F, G, W1, W2 := string(files[f]), string(files[g]), string(files[wait]), string(files[wait2])
			lines = append(lines, engine.Line{F + "2" + F + "4", W1 + "7" + W1 + "6", F + "4" + F + "5", G + "7" + G + "5", F + "5" + G + "6"})
			lines = append(lines, engine.Line{W1 + "2" + W1 + "3", F + "7" + F + "5", W2 + "2" + W2 + "3", F + "5" + F + "4", G + "2" + G + "4", F + "4" + G + "3"})
		}
	}
	return lines
}
