package main

import (
	"context"
	"fmt"
	"math/rand"
	"strings"
	"sync"
	"time"

	"github.com/herohde/morlock/pkg/board"
	"github.com/herohde/morlock/pkg/board/fen"
	"github.com/herohde/morlock/pkg/engine"
	"github.com/herohde/morlock/pkg/eval"
	"github.com/herohde/morlock/pkg/search"
	"verif/harness/internal/gen"
	"verif/harness/internal/out"
	"verif/harness/internal/ucih"
)

// scripted is a search that returns, for depth d, the d-th entry of a script (beyond the listed
// properties: what the UCI driver prints about a search result).
type scripted struct {
	mu     sync.Mutex
	script []scriptedPV
}

type scriptedPV struct {
	nodes uint64
	score eval.Score
	pv    []board.Move
}

func (s *scripted) Search(ctx context.Context, sctx *search.Context, b *board.Board, depth int) (uint64, eval.Score, []board.Move, error) {
	s.mu.Lock()
	defer s.mu.Unlock()
	select {
	case <-ctx.Done():
		return 0, eval.Score{}, nil, search.ErrHalted
	default:
	}
	if depth > len(s.script) {
		depth = len(s.script)
	}
	e := s.script[depth-1]
	return e.nodes, e.score, e.pv, nil
}

// uciInfo: go depth N on a driver whose search is scripted; the info lines the driver prints are recorded
// as token lists next to the script.
func uciInfo(ctx context.Context, r *rand.Rand, w *out.Writer, n int) {
	for i := 0; i < n; i++ {
		roots := makeRoots(r, 1, true, false, false)
		b := roots[0].b
		if legal, _ := gen.LegalOf(b); len(legal) == 0 {
			continue
		}
		limit := 1 + r.Intn(4)
		st := &scripted{}
		var script []out.M
		for d := 1; d <= limit; d++ {
			// a legal line of up to d moves
			fb := b.Fork()
			var pv []board.Move
			var texts []string
			for k := 0; k < d && r.Intn(6) != 0; k++ {
				legal, _ := gen.LegalOf(fb)
				if len(legal) == 0 {
					break
				}
				m := legal[r.Intn(len(legal))]
				fb.PushMove(m)
				pv = append(pv, m)
				texts = append(texts, moveText(m))
			}
			if d == 1 && len(pv) == 0 {
				legal, _ := gen.LegalOf(b)
				pv = []board.Move{legal[0]}
				texts = []string{moveText(legal[0])}
			}
			if texts == nil {
				texts = []string{}
			}
			e := scriptedPV{nodes: uint64(r.Intn(3)) * uint64(1+r.Intn(100000)), pv: pv}
			ev := out.M{"depth": d, "nodes": e.nodes, "pv": texts, "t": "H", "m": 0, "cp": 0}
			switch x := r.Intn(10); {
			case x < 6:
				k := r.Intn(4001) - 2000 // quarter pawns: exact in float32, exact in centipawns
				e.score = eval.HeuristicScore(eval.Pawns(float32(k) / 4))
				ev["cp"] = 25 * k
			case x < 9:
				m := 1 + r.Intn(30)
				if m <= d {
					m = d + 1 + r.Intn(10) // a mate within the depth would end the search: keep it running
				}
				if r.Intn(2) == 0 {
					m = -m
				}
				e.score = eval.MateInXScore(int8(m))
				ev["t"], ev["m"] = "M", m
			default:
				if r.Intn(2) == 0 {
					e.score = eval.InfScore
					ev["t"] = "W"
				} else {
					e.score = eval.NegInfScore
					ev["t"] = "L"
				}
			}
			st.script = append(st.script, e)
			script = append(script, ev)
			if md, ok := e.score.MateDistance(); ok && int(md) <= d && d < limit {
				// the search may take a decided score for a forced mate and stop here
				limit = d
			}
		}
		e := engine.New(ctx, "scripted", "verif", st)
		s := ucih.Start(ctx, e)
		tmo := 60 * time.Second
		f := fen.Encode(b.Position(), b.Turn(), b.NoProgress(), b.FullMoves())
		ok := s.Send("position fen "+f, tmo) && s.Send(fmt.Sprintf("go depth %d", limit), tmo)
		var lines [][]string
		best := []string{}
		if ok {
			seen, got := s.Until("bestmove", tmo)
			ok = got
			for _, l := range seen {
				t := strings.Fields(l)
				if len(t) > 0 && t[0] == "info" {
					lines = append(lines, t)
				}
				if len(t) > 0 && t[0] == "bestmove" {
					best = t
				}
			}
		}
		if lines == nil {
			lines = [][]string{}
		}
		w.Emit(out.M{"op": "uciinfo", "fen": f, "limit": limit, "script": script, "lines": lines, "best": best, "answered": ok})
		s.Quit(tmo)
	}
}
