// vh is the verification harness: generators/recorders (impl -> spec) and replayers
// (spec -> impl) for the TLA+ specifications in /verif/spec. It never judges: it drives
// the real code built from /repo's working tree and writes ndjson for TLC to validate.
package main

import (
	"flag"
	"fmt"
	"os"
)

type cmd struct {
	name string
	help string
	run  func(args []string)
}

var cmds []cmd

func register(name, help string, run func(args []string)) {
	cmds = append(cmds, cmd{name, help, run})
}

func main() {
	// morlock logs through glog: keep its files out of /tmp.
	dir := os.Getenv("VERIF_SCRATCH")
	if dir == "" {
		dir = os.TempDir()
	}
	_ = flag.Set("log_dir", dir)
	_ = flag.Set("stderrthreshold", "FATAL")

	if len(os.Args) < 2 {
		usage()
	}
	for _, c := range cmds {
		if c.name == os.Args[1] {
			c.run(os.Args[2:])
			return
		}
	}
	usage()
}

func usage() {
	fmt.Fprintln(os.Stderr, "usage: vh <command> [flags]")
	for _, c := range cmds {
		fmt.Fprintf(os.Stderr, "  %-12s %s\n", c.name, c.help)
	}
	os.Exit(2)
}
