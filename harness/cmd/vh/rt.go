package main

import "runtime"

func runtimeStack(buf []byte) int { return runtime.Stack(buf, false) }
