package main

import (
	"context"
	"encoding/json"
	"flag"
	"fmt"
	"math/rand"
	"os"
	"sort"
	"strings"
	"sync"
	"time"

	"github.com/herohde/morlock/pkg/board"
	"github.com/herohde/morlock/pkg/board/fen"
	"github.com/herohde/morlock/pkg/engine"
	"github.com/herohde/morlock/pkg/eval"
	"github.com/herohde/morlock/pkg/search"
	"github.com/herohde/morlock/pkg/verifhook"
	"github.com/seekerror/stdlib/pkg/util/contextx"
	"verif/harness/internal/corpus"
	"verif/harness/internal/out"
	"verif/harness/internal/sched"
	"verif/harness/internal/ucih"
)

func init() {
	register("ucisched", "scenarios on the real UCI driver with a gated stub search (or the real searches), hook-recorded and schedule-perturbed (C04 C16)", ucisched)
}

// ---------------------------------------------------------------------------------------
// stub search: every analysis (instance k) reports, for each depth the scenario releases,
// a principal variation whose first move identifies k; it parks at a gate before returning
// each iteration and observes cancellation there.

type stubT struct {
	mu     sync.Mutex
	c      *sched.Controller
	next   int
	inst   map[int64]int
	gates  map[[2]int]chan struct{}
	parked int
	mate   map[int]int // instance -> depth at which a forced mate is reported
	auto   int         // depths released automatically for every instance
}

func newStub(c *sched.Controller) *stubT {
	return &stubT{c: c, inst: map[int64]int{}, gates: map[[2]int]chan struct{}{}, mate: map[int]int{}}
}

func (s *stubT) gate(k, d int) chan struct{} {
	key := [2]int{k, d}
	g, ok := s.gates[key]
	if !ok {
		g = make(chan struct{})
		if d <= s.auto {
			close(g)
		}
		s.gates[key] = g
	}
	return g
}

// Release lets iteration d of instance k complete.
func (s *stubT) Release(k, d int) {
	s.mu.Lock()
	defer s.mu.Unlock()
	g := s.gate(k, d)
	select {
	case <-g:
	default:
		close(g)
	}
}

func (s *stubT) Parked() int {
	s.mu.Lock()
	defer s.mu.Unlock()
	return s.parked
}

func (s *stubT) Instances() int {
	s.mu.Lock()
	defer s.mu.Unlock()
	return s.next
}

func (s *stubT) Search(ctx context.Context, sctx *search.Context, b *board.Board, depth int) (uint64, eval.Score, []board.Move, error) {
	gid := goroutineID()
	s.mu.Lock()
	if depth == 1 {
		// the instance number is the number of the search goroutine (launch order)
		k := s.c.RoleIndex("iter")
		if k == 0 {
			s.next++
			k = 1000 + s.next // not launched through the engine
		}
		if k > s.next {
			s.next = k
		}
		s.inst[gid] = k
	}
	k := s.inst[gid]
	g := s.gate(k, depth)
	s.parked++
	s.mu.Unlock()
	s.c.Mark("stub.enter", k, depth)

	// like a real search, the stub works ON the board it was given: while it "searches" a move is pushed, and it
	// is taken back on the way out - slowly when halted (a search may take its time to unwind). Harmless on the
	// fork the engine hands out; visible at once if the engine's own board were handed out.
	pushed := false
	for _, m := range b.Position().PseudoLegalMoves(b.Turn()) {
		if b.PushMove(m) {
			pushed = true
			break
		}
	}
	select {
	case <-g:
	case <-ctx.Done():
	}
	s.mu.Lock()
	s.parked--
	s.mu.Unlock()
	if contextx.IsCancelled(ctx) {
		if pushed {
			time.Sleep(time.Duration(200+int(gid%7)*300) * time.Microsecond)
			b.PopMove()
		}
		s.c.Mark("stub.halted", k, depth)
		return 0, eval.InvalidScore, nil, search.ErrHalted
	}
	if pushed {
		b.PopMove()
	}

	var legal []board.Move
	for _, m := range b.Position().PseudoLegalMoves(b.Turn()) {
		if _, ok := b.Position().Move(m); ok {
			legal = append(legal, m)
		}
	}
	sort.Slice(legal, func(i, j int) bool { return moveText(legal[i]) < moveText(legal[j]) })
	var pv []board.Move
	txt := "0000"
	if len(legal) > 0 {
		m := legal[k%len(legal)]
		pv = []board.Move{m}
		txt = moveText(m)
	}
	score := eval.HeuristicScore(eval.Pawns(k))
	s.mu.Lock()
	md := s.mate[k]
	s.mu.Unlock()
	if md > 0 && depth >= md {
		score = eval.MateInXScore(int8(md))
	}
	s.c.Mark("stub.result", k, depth, txt)
	return uint64(depth), score, pv, nil
}

func goroutineID() int64 {
	var buf [64]byte
	n := runtimeStack(buf[:])
	var id int64
	fmt.Sscanf(string(buf[:n]), "goroutine %d ", &id)
	return id
}

// ---------------------------------------------------------------------------------------

type stepT struct {
	Kind string `json:"kind"` // cmd | release | pause | eof
	Arg  string `json:"arg"`
	K    int    `json:"k"`
	D    int    `json:"d"`
}

// randomScript builds a command script over real games with gated searches.
func randomScript(r *rand.Rand, stub bool) []stepT {
	var steps []stepT
	all := corpus.All()
	g := gameT{start: "startpos"}
	if r.Intn(2) == 0 {
		g = gameT{start: "fen " + all[r.Intn(len(all))].Fen}
	}
	g = extend(r, g, r.Intn(4))
	steps = append(steps, stepT{Kind: "cmd", Arg: g.line()})
	searches := 0
	n := 3 + r.Intn(8)
	goCmd := func() string {
		switch r.Intn(6) {
		case 0:
			return "go infinite"
		case 1:
			return fmt.Sprintf("go depth %d", 1+r.Intn(3))
		case 2:
			return fmt.Sprintf("go movetime %d", 1+r.Intn(30))
		case 3:
			return fmt.Sprintf("go wtime %d btime %d movestogo %d", 10+r.Intn(3000), 10+r.Intn(3000), 1+r.Intn(40))
		case 4:
			return "go"
		default:
			// clocks at their edges: nothing left, only the opponent's clock given, movestogo alone
			// ... and tokens the driver does not act on, before and after the ones it does
			return []string{"go wtime 0 btime 0", "go wtime 0 btime 5000 movestogo 5", "go wtime 5000 btime 0", "go movestogo 20",
				"go wtime 30000", "go btime 30000", "go wtime 1 btime 1 movestogo 1", fmt.Sprintf("go depth %d", 1+r.Intn(2)),
				"go wtime 500 btime 500 winc 10 binc 10", "go nodes 5000 depth 1", "go mate 2 depth 2", "go ponder depth 1",
				"go searchmoves e2e4 d2d4 depth 1", "go depth 1 nodes 100", "go winc 5 binc 5 wtime 200 btime 200 movestogo 3",
				// little on the clock and a large increment; very different clocks for the two sides
				"go wtime 200 btime 200 winc 20000 binc 20000", "go winc 60000 binc 60000 wtime 50 btime 50 movestogo 2",
				"go wtime 100 btime 60000", "go wtime 60000 btime 100", "go wtime 40 btime 90000 movestogo 1"}[r.Intn(20)]
		}
	}
	for i := 0; i < n; i++ {
		x := r.Intn(100)
		switch {
		case x < 25:
			steps = append(steps, stepT{Kind: "cmd", Arg: goCmd()})
			searches++
		case x < 50 && searches > 0:
			steps = append(steps, stepT{Kind: "release", K: 1 + r.Intn(searches), D: 1 + r.Intn(3)})
		case x < 60:
			steps = append(steps, stepT{Kind: "cmd", Arg: "isready"})
		case x < 72:
			steps = append(steps, stepT{Kind: "cmd", Arg: "stop"})
		case x < 84:
			if r.Intn(2) == 0 {
				g = extend(r, g, 1+r.Intn(2))
			} else {
				g = extend(r, gameT{start: "startpos"}, r.Intn(3))
			}
			steps = append(steps, stepT{Kind: "cmd", Arg: g.line()})
		case x < 88:
			steps = append(steps, stepT{Kind: "cmd", Arg: "ucinewgame"})
		case x < 93:
			steps = append(steps, stepT{Kind: "cmd", Arg: []string{"", "xyzzy", "setoption name Foo value 1", "debug on", "ponderhit", "  isready", "register later", "\t", "isready now",
				"setoption name Hash value 1", "setoption name Hash value 0", "setoption name Depth value 2", "setoption name Depth value 0",
				"setoption name Noise value 10", "setoption name OwnBook value false", "setoption name OwnBook value true", "setoption name Hash", "setoption",
				// lines that stop short or carry blanks where a value should be
				"setoption name Hash value", "setoption name Noise value   ", "setoption name", "setoption value", "setoption name value 3",
				"setoption name Clear Hash", "setoption name Depth value x", "setoption name Depth value -1"}[r.Intn(26)]})
		default:
			steps = append(steps, stepT{Kind: "pause", D: r.Intn(3)})
		}
	}
	if r.Intn(5) < 3 { // let the searches make progress before the end
		for k := 1; k <= searches; k++ {
			for d := 1; d <= 3; d++ {
				if r.Intn(4) != 0 {
					steps = append(steps, stepT{Kind: "release", K: k, D: d})
				}
			}
		}
		steps = append(steps, stepT{Kind: "pause", D: 1})
	}
	switch r.Intn(5) {
	case 0:
		steps = append(steps, stepT{Kind: "cmd", Arg: "quit"})
	case 1:
		steps = append(steps, stepT{Kind: "eof"})
	case 2:
		steps = append(steps, stepT{Kind: "cmd", Arg: "stop"}, stepT{Kind: "cmd", Arg: "isready"})
	}
	return steps
}

// directed scenarios: the orderings TLC finds on the driver model (spec/Uci.tla), expressed as
// hold rules on hook points.
type directedT struct {
	name  string
	steps []stepT
	rules []sched.Rule
}

func directedScenarios() []directedT {
	h := 1500 * time.Millisecond
	return []directedT{
		{ // a superseded search's forwarder completes after the next go has been activated
			name: "stale-forwarder",
			steps: []stepT{{Kind: "cmd", Arg: "position startpos"}, {Kind: "cmd", Arg: "go depth 2"}, {Kind: "release", K: 1, D: 1},
				{Kind: "cmd", Arg: "position startpos moves e2e4"}, {Kind: "cmd", Arg: "go depth 1"}, {Kind: "pause", D: 2},
				{Kind: "release", K: 2, D: 1}, {Kind: "cmd", Arg: "isready"}},
			rules: []sched.Rule{{Point: "uci.fwd.closed", Occ: 1, Until: "uci.go.activated", UntilOcc: 2, Timeout: h}},
		},
		{ // the same with a new game in between (whatever the driver counts per game starts again)
			name: "stale-forwarder-across-ucinewgame",
			steps: []stepT{{Kind: "cmd", Arg: "position startpos"}, {Kind: "cmd", Arg: "go depth 2"}, {Kind: "release", K: 1, D: 1},
				{Kind: "cmd", Arg: "ucinewgame"}, {Kind: "cmd", Arg: "position startpos moves e2e4"}, {Kind: "cmd", Arg: "go depth 1"}, {Kind: "pause", D: 2},
				{Kind: "release", K: 2, D: 1}, {Kind: "cmd", Arg: "isready"}},
			rules: []sched.Rule{{Point: "uci.fwd.closed", Occ: 1, Until: "uci.go.activated", UntilOcc: 2, Timeout: h}},
		},
		{ // ... and with the new game's search still running when the old forwarder gets through
			name: "stale-forwarder-across-ucinewgame-infinite",
			steps: []stepT{{Kind: "cmd", Arg: "position startpos"}, {Kind: "cmd", Arg: "go depth 2"}, {Kind: "release", K: 1, D: 1},
				{Kind: "cmd", Arg: "ucinewgame"}, {Kind: "cmd", Arg: "position startpos moves e2e4"}, {Kind: "cmd", Arg: "go infinite"}, {Kind: "pause", D: 2},
				{Kind: "release", K: 2, D: 1}, {Kind: "pause", D: 3}, {Kind: "cmd", Arg: "stop"}, {Kind: "cmd", Arg: "isready"}},
			rules: []sched.Rule{{Point: "uci.fwd.closed", Occ: 1, Until: "uci.go.activated", UntilOcc: 2, Timeout: h}},
		},
		{ // a new position arrives while the search is running: its forwarder finishes while the loop is still inside Halt
			name: "supersede-while-unwinding",
			steps: []stepT{{Kind: "cmd", Arg: "position startpos"}, {Kind: "cmd", Arg: "go depth 5"}, {Kind: "release", K: 1, D: 1},
				{Kind: "cmd", Arg: "position startpos moves e2e4"}, {Kind: "cmd", Arg: "isready"},
				{Kind: "cmd", Arg: "go infinite"}, {Kind: "release", K: 2, D: 1}, {Kind: "cmd", Arg: "stop"}, {Kind: "cmd", Arg: "isready"}},
			rules: []sched.Rule{{Point: "engine.halt.end", Occ: 1, Until: "uci.fwd.exit", UntilOcc: 1, Timeout: h}},
		},
		{ // quit while thousands of search infos are backlogged because the GUI reads slowly
			name: "quit-with-backlog",
			steps: []stepT{{Kind: "cmd", Arg: "position startpos"}, {Kind: "auto", D: 400000}, {Kind: "cmd", Arg: "go infinite"},
				// 100 lines fill the output channel, 400 infos the ponder channel, one is in the loop's hand and the
				// forwarder is blocked sending the next one
				{Kind: "stall-until", Arg: "uci.fwd.pv", K: 502, D: 4000}, {Kind: "rawcmd", Arg: "quit"}},
		},
		{ // the output channel is exactly full (the GUI has not read 100 info lines) when isready and then quit arrive
			name:  "isready-then-quit-with-full-output",
			steps: fullOutputSteps(),
		},
		{ // quit while a completion is on its way
			name: "quit-during-completion",
			steps: []stepT{{Kind: "cmd", Arg: "position startpos"}, {Kind: "cmd", Arg: "go depth 1"}, {Kind: "release", K: 1, D: 1},
				{Kind: "cmd", Arg: "quit"}},
			rules: []sched.Rule{{Point: "uci.complete.try", Occ: 1, Until: "uci.loop.exit", UntilOcc: 1, Timeout: h}},
		},
		{ // quit while a completion that has already won the compare-and-swap has not sent its lines yet
			name: "quit-after-completion-won",
			steps: []stepT{{Kind: "cmd", Arg: "position startpos"}, {Kind: "cmd", Arg: "go depth 1"}, {Kind: "release", K: 1, D: 1},
				{Kind: "cmd", Arg: "quit"}},
			rules: []sched.Rule{{Point: "uci.complete.won", Occ: 1, Until: "uci.loop.exit", UntilOcc: 1, Timeout: h, After: 3 * time.Millisecond, Late: true}},
		},
		{ // end of input while a completion has won and not sent
			name: "eof-after-completion-won",
			steps: []stepT{{Kind: "cmd", Arg: "position startpos"}, {Kind: "cmd", Arg: "go depth 1"}, {Kind: "release", K: 1, D: 1},
				{Kind: "eof"}},
			rules: []sched.Rule{{Point: "uci.complete.won", Occ: 1, Until: "uci.loop.exit", UntilOcc: 1, Timeout: h, After: 3 * time.Millisecond, Late: true}},
		},
		{ // end of input while a search is running
			name: "eof-during-search",
			steps: []stepT{{Kind: "cmd", Arg: "position startpos"}, {Kind: "cmd", Arg: "go depth 2"}, {Kind: "release", K: 1, D: 1},
				{Kind: "eof"}, {Kind: "release", K: 1, D: 2}},
			rules: []sched.Rule{{Point: "uci.fwd.closed", Occ: 1, Until: "uci.loop.exit", UntilOcc: 1, Timeout: h}},
		},
		{ // stop arrives while the search completes by itself
			name: "stop-races-completion",
			steps: []stepT{{Kind: "cmd", Arg: "position startpos"}, {Kind: "cmd", Arg: "go depth 1"}, {Kind: "release", K: 1, D: 1},
				{Kind: "cmd", Arg: "stop"}, {Kind: "cmd", Arg: "isready"}},
			rules: []sched.Rule{{Point: "uci.fwd.closed", Occ: 1, Until: "uci.stop.halted", UntilOcc: 1, Timeout: h}},
		},
		{ // ... and both completers are inside searchCompleted at once: the first to claim the answer is held (its
			// claim is in the trace) until the second one has arrived - the claim must be atomic, one bestmove only
			name: "stop-and-completion-both-inside",
			steps: []stepT{{Kind: "cmd", Arg: "position startpos"}, {Kind: "cmd", Arg: "go depth 1"}, {Kind: "release", K: 1, D: 1},
				{Kind: "cmd", Arg: "stop"}, {Kind: "cmd", Arg: "isready"}},
			rules: []sched.Rule{{Point: "uci.fwd.closed", Occ: 1, Until: "uci.stop.halted", UntilOcc: 1, Timeout: h},
				{Point: "uci.complete.won", Occ: 1, Until: "uci.complete.try", UntilOcc: 2, Timeout: h, Late: true}},
		},
		{ // the movetime timer of a superseded go fires during the next (infinite) search; then stop
			name: "stale-movetime-timer",
			steps: []stepT{{Kind: "cmd", Arg: "position startpos"}, {Kind: "cmd", Arg: "go movetime 40"}, {Kind: "release", K: 1, D: 1},
				{Kind: "cmd", Arg: "position startpos moves e2e4"}, {Kind: "cmd", Arg: "go infinite"}, {Kind: "release", K: 2, D: 1},
				{Kind: "pause", D: 90}, {Kind: "cmd", Arg: "stop"}, {Kind: "cmd", Arg: "isready"}},
		},
		{ // nothing left on the clock: the go must still be answered with a legal move
			name: "zero-clock",
			steps: []stepT{{Kind: "cmd", Arg: "position startpos"}, {Kind: "cmd", Arg: "go wtime 0 btime 0"}, {Kind: "release", K: 1, D: 1},
				{Kind: "release", K: 1, D: 2}, {Kind: "pause", D: 5}, {Kind: "cmd", Arg: "isready"},
				{Kind: "cmd", Arg: "position startpos moves e2e4"}, {Kind: "cmd", Arg: "go wtime 30000"}, {Kind: "release", K: 2, D: 1},
				{Kind: "release", K: 2, D: 2}, {Kind: "pause", D: 5}, {Kind: "cmd", Arg: "isready"}},
		},
		{ // infinite search: stop must produce the bestmove
			name: "infinite-stop",
			steps: []stepT{{Kind: "cmd", Arg: "position startpos"}, {Kind: "cmd", Arg: "go infinite"}, {Kind: "release", K: 1, D: 1},
				{Kind: "release", K: 1, D: 2}, {Kind: "cmd", Arg: "stop"}, {Kind: "cmd", Arg: "isready"}},
		},
		// malformed lines: the driver may give up in an orderly way (exit, output closed) or carry on - it must
		// not hang or crash, idle or searching
		{
			name: "illegal-move-leaves-king-in-check-idle",
			steps: []stepT{{Kind: "cmd", Arg: "position startpos"}, {Kind: "cmd", Arg: "go depth 1"}, {Kind: "release", K: 1, D: 1}, {Kind: "pause", D: 2},
				{Kind: "cmd", Arg: "position startpos moves f2f3 e7e5 g2g4 d8h4 a2a3"}, {Kind: "cmd", Arg: "isready"}},
		},
		{
			name: "illegal-move-leaves-king-in-check-searching",
			steps: []stepT{{Kind: "cmd", Arg: "position startpos"}, {Kind: "cmd", Arg: "go infinite"}, {Kind: "release", K: 1, D: 1},
				{Kind: "cmd", Arg: "position startpos moves f2f3 e7e5 g2g4 d8h4 e1f2"}, {Kind: "cmd", Arg: "isready"}},
		},
		{
			name: "impossible-move-searching",
			steps: []stepT{{Kind: "cmd", Arg: "position startpos"}, {Kind: "cmd", Arg: "go infinite"}, {Kind: "release", K: 1, D: 1},
				{Kind: "cmd", Arg: "position startpos moves e2e5"}, {Kind: "cmd", Arg: "isready"}},
		},
		{
			name: "short-fen-searching",
			steps: []stepT{{Kind: "cmd", Arg: "position startpos"}, {Kind: "cmd", Arg: "go infinite"}, {Kind: "release", K: 1, D: 1},
				{Kind: "cmd", Arg: "position fen 8/8/8 w - - 0 1"}, {Kind: "cmd", Arg: "isready"}},
		},
		{
			name: "go-depth-x-searching",
			steps: []stepT{{Kind: "cmd", Arg: "position startpos"}, {Kind: "cmd", Arg: "go infinite"}, {Kind: "release", K: 1, D: 1},
				{Kind: "cmd", Arg: "go depth x"}, {Kind: "cmd", Arg: "isready"}},
		},
		{ // option lines that stop short, while a search is running
			name: "truncated-setoptions-searching",
			steps: []stepT{{Kind: "cmd", Arg: "position startpos"}, {Kind: "cmd", Arg: "go infinite"}, {Kind: "release", K: 1, D: 1},
				{Kind: "cmd", Arg: "setoption"}, {Kind: "cmd", Arg: "setoption name"}, {Kind: "cmd", Arg: "setoption name Hash"}, {Kind: "cmd", Arg: "setoption name Clear Hash"},
				{Kind: "cmd", Arg: "setoption name Noise value"}, {Kind: "cmd", Arg: "isready"}, {Kind: "cmd", Arg: "setoption name Hash value   "},
				{Kind: "cmd", Arg: "setoption value"}, {Kind: "cmd", Arg: "isready"}, {Kind: "cmd", Arg: "stop"}, {Kind: "cmd", Arg: "isready"}},
		},
		{ // a second go without stop
			name: "go-go",
			steps: []stepT{{Kind: "cmd", Arg: "position startpos"}, {Kind: "cmd", Arg: "go depth 3"}, {Kind: "release", K: 1, D: 1},
				{Kind: "cmd", Arg: "go depth 1"}, {Kind: "release", K: 2, D: 1}, {Kind: "release", K: 1, D: 2}, {Kind: "cmd", Arg: "isready"}},
			rules: []sched.Rule{{Point: "uci.fwd.closed", Occ: 1, Until: "uci.go.activated", UntilOcc: 2, Timeout: h}},
		},
	}
}

// the backlog scenario depends on which ready case the loop's select picks when quit arrives: repeat it
func directedAll() []directedT {
	ds := directedScenarios()
	var ret []directedT
	for _, d := range ds {
		ret = append(ret, d)
		if d.name == "quit-with-backlog" {
			for i := 2; i <= 4; i++ {
				c := d
				c.name = fmt.Sprintf("%v-%d", d.name, i)
				ret = append(ret, c)
			}
		}
	}
	return ret
}

// fullOutputSteps: one info line per released iteration, none read, until the output channel (100 slots) is
// full and the loop is idle; then isready and quit from a GUI that still does not read.
func fullOutputSteps() []stepT {
	steps := []stepT{{Kind: "cmd", Arg: "position startpos"}, {Kind: "cmd", Arg: "go infinite"}}
	for d := 1; d <= 100; d++ {
		steps = append(steps, stepT{Kind: "release-noread", K: 1, D: d}, stepT{Kind: "stall-until", Arg: "uci.loop.ponder", K: d, D: 2000})
	}
	// ... and keeps not reading until the driver has had time to shut down (if it took the quit at all)
	return append(steps, stepT{Kind: "cmd-noread", Arg: "isready", D: 300}, stepT{Kind: "cmd-noread", Arg: "quit", D: 300},
		stepT{Kind: "stall-until", Arg: "uci.fwd.exit", K: 1, D: 3000}, stepT{Kind: "stall", D: 60})
}

func ucisched(args []string) {
	fs := flag.NewFlagSet("ucisched", flag.ExitOnError)
	seed := fs.Int64("seed", 1, "seed")
	n := fs.Int("n", 20, "random scenarios")
	mode := fs.String("mode", "stub", "stub | real | directed")
	delay := fs.Int("delay", 30, "probability (percent) of a random delay at a hook point")
	maxus := fs.Int("maxus", 300, "maximum delay in microseconds")
	path := fs.String("out", "", "output ndjson")
	only := fs.String("only", "", "directed mode: run only this scenario")
	scripts := fs.String("scripts", "", "script mode: json file of scenarios")
	evlog := fs.String("evlog", "", "file that always holds the scenario record and the events recorded so far of the running scenario (read after a crash)")
	final := fs.Bool("final", false, "script mode: re-run of scenarios that did not come to rest; a scenario that does not settle in -settle ms now is reported")
	settle := fs.Int("settle", 5000, "how long (ms) to wait for a scenario to come to rest")
	_ = fs.Parse(args)
	if !verifhook.Enabled {
		out.Fatalf("built without the verif tag: hooks are compiled out")
	}
	r := rand.New(rand.NewSource(*seed))
	w := out.Create(*path)
	ctx := context.Background()

	run := func(name string, steps []stepT, rules []sched.Rule, useStub bool, spec ucih.EngineSpec, dly int) {
		c := sched.New(r.Int63())
		c.Delay, c.MaxUs = dly, *maxus
		c.Keep = 80
		for i := range rules {
			rr := rules[i]
			c.Rules = append(c.Rules, &rr)
		}
		verifhook.Install(c.Handle)
		var e *engine.Engine
		var stub *stubT
		if useStub {
			stub = newStub(c)
			stub.auto = 0
			e = engine.New(ctx, "stub", "verif", stub, engine.WithOptions(engine.Options{Hash: spec.Hash}))
		} else {
			ee, _ := ucih.Build(ctx, spec)
			e = ee
		}
		var opts = []string{}
		_ = opts
		w.Emit(out.M{"op": "scenario", "name": name, "steps": steps, "stub": useStub, "engine": spec.Name, "hash": spec.Hash, "noise": spec.Noise, "book": spec.Book,
			"depth": spec.Depth, "seed": spec.Seed, "delay": dly, "directed": len(rules) > 0})
		w.Flush()
		if *evlog != "" {
			if f, err := os.Create(*evlog); err == nil {
				rec, _ := json.Marshal(out.M{"op": "scenario", "name": name, "steps": steps, "stub": useStub, "engine": spec.Name, "hash": spec.Hash, "noise": spec.Noise, "book": spec.Book})
				_, _ = f.Write(append(rec, '\n'))
				c.Log = f
				defer f.Close()
			}
		}
		if *final {
			c.Mark("harness.final-run")
		}
		var s *ucih.Session
		if useStub {
			s = ucih.Start(ctx, e)
		} else {
			_, o := ucih.Build(ctx, spec)
			s = ucih.Start(ctx, e, o...)
		}
		tmo := 3 * time.Second
		closed := false
		lineAt := func() int { return len(s.Lines) }
		mark := 0
		flushOut := func() {
			s.DrainNow() // whatever has been sent is in the (buffered) channel: no timer involved
			for ; mark < lineAt(); mark++ {
				c.Mark("out", s.Lines[mark])
			}
		}
		for _, st := range steps {
			if st.Kind != "stall" && st.Kind != "stall-until" && st.Kind != "rawcmd" && !strings.HasSuffix(st.Kind, "-noread") {
				flushOut()
			}
			switch st.Kind {
			case "cmd":
				if closed || s.Dead {
					continue
				}
				// Halt waits for the first iteration of the search it halts ("never before depth 1 is
				// complete"): if the loop does not come back for the next command, let the first
				// iterations of the gated stub searches complete, as real searches do by themselves
				ok := c.Deliver(func() bool { return s.Send(st.Arg, 100*time.Millisecond) }, 100*time.Millisecond)
				if !ok && stub != nil {
					for k := 1; k <= stub.Instances()+1; k++ {
						stub.Release(k, 1)
					}
					c.Mark("harness.released-first-iterations")
				}
				if !ok {
					ok = c.Deliver(func() bool { return s.Send(st.Arg, tmo) }, tmo)
				}
				if !ok {
					c.Mark("harness.undelivered", st.Arg)
				}
				if st.Arg == "quit" {
					closed = true
				}
			case "release", "release-noread":
				if stub != nil {
					stub.Release(st.K, st.D)
				}
			case "pause":
				time.Sleep(time.Duration(st.D) * time.Millisecond)
			case "stall": // the GUI does not read the engine's output for a while
				time.Sleep(time.Duration(st.D) * time.Millisecond)
				continue
			case "stall-until": // ... until the named point has been reached K times (at most D ms)
				c.WaitCount(st.Arg, st.K, time.Duration(st.D)*time.Millisecond)
				time.Sleep(20 * time.Millisecond)
				continue
			case "auto": // the stub search completes its iterations by itself up to this depth
				if stub != nil {
					stub.mu.Lock()
					stub.auto = st.D
					stub.mu.Unlock()
				}
			case "cmd-noread": // handed over by a GUI that is not reading: nothing is taken from the output meanwhile;
				// if the driver does not take it within D ms (it may be blocked on its full output), the GUI reads again
				if closed || s.Dead {
					continue
				}
				if !s.SendNoRead(st.Arg, time.Duration(st.D)*time.Millisecond) {
					if !s.Send(st.Arg, 10*time.Second) {
						c.Mark("harness.undelivered", st.Arg)
					}
				}
				if st.Arg == "quit" {
					closed = true
				}
			case "rawcmd": // handed over without waiting for an idle loop (the loop may be busy writing output)
				if closed || s.Dead {
					continue
				}
				if !s.Send(st.Arg, 10*time.Second) {
					c.Mark("harness.undelivered", st.Arg)
				}
				if st.Arg == "quit" {
					closed = true
				}
			case "eof":
				if !closed {
					c.Mark("harness.eof")
					s.CloseInput()
					closed = true
				}
			}
		}
		// settle: wait until nothing moves any more (searches parked at gates count as idle). A loop
		// that is neither idle nor gone is waiting in Halt for a first iteration: release those.
		quiet := false
		deadline := time.Now().Add(time.Duration(*settle) * time.Millisecond)
		if closed {
			// after quit / end of input "at rest" means the driver has shut down; an idle loop that has not
			// yet been scheduled to see the command is not at rest (and only a driver that stays alive for
			// many seconds is reported as not shutting down)
			deadline = time.Now().Add(20*time.Second + time.Duration(*settle)*time.Millisecond)
		}
		stuckSince := time.Now()
		for time.Now().Before(deadline) {
			flushOut()
			loopDone := (c.LoopIdle() && !closed) || s.Dead
			if !loopDone && stub != nil && time.Since(stuckSince) > 15*time.Millisecond {
				for k := 1; k <= stub.Instances()+1; k++ {
					stub.Release(k, 1)
				}
				c.Mark("harness.released-first-iterations")
				stuckSince = time.Now()
			}
			running := c.Count("iter.start") - c.Count("iter.exit")
			parked := 0
			if stub != nil {
				parked = stub.Parked()
			}
			fw := c.Count("uci.fwd.start") - c.Count("uci.fwd.exit")
			comp := c.Count("uci.complete.try") - c.Count("uci.complete.done")
			if loopDone && running == parked && comp == 0 && (fw == 0 || running > 0) {
				n0 := c.Total()
				time.Sleep(3 * time.Millisecond)
				flushOut()
				if c.Total() == n0 {
					quiet = true
					break
				}
			}
			time.Sleep(time.Millisecond)
		}
		flushOut()
		c.Mark("quiescent", quiet, closed, s.Dead)
		// shut down what is left so that the next scenario starts clean
		if !closed && !s.Dead {
			c.Deliver(func() bool { return s.Send("quit", tmo) }, tmo)
		}
		if stub != nil {
			for k := 1; k <= stub.Instances(); k++ {
				for d := 1; d <= 12; d++ {
					stub.Release(k, d)
				}
			}
		}
		// nothing of this scenario may be left running when the next one starts (the hooks are global)
		for end := time.Now().Add(3 * time.Second); time.Now().Before(end); time.Sleep(500 * time.Microsecond) {
			flushOut()
			if s.Dead && c.Count("iter.start") == c.Count("iter.exit") && c.Count("uci.fwd.start") == c.Count("uci.fwd.exit") {
				break
			}
		}
		flushOut()
		verifhook.Install(nil)
		c.Close()
		var timedOut []string
		for _, rr := range c.Rules {
			if rr.TimedOut || !rr.Fired {
				timedOut = append(timedOut, rr.Point)
			}
		}
		if timedOut == nil {
			timedOut = []string{}
		}
		w.Emit(out.M{"op": "events", "events": c.Events(), "infeasible": timedOut})
		w.Flush()
	}

	switch *mode {
	case "script": // scenarios projected from TLC-generated behaviours of spec/Uci.tla (lib/simscripts.py)
		data, err := os.ReadFile(*scripts)
		if err != nil {
			out.Fatalf("read %v: %v", *scripts, err)
		}
		var list []struct {
			Name   string  `json:"name"`
			Steps  []stepT `json:"steps"`
			Stub   *bool   `json:"stub"`
			Engine string  `json:"engine"`
			Hash   uint    `json:"hash"`
			Noise  uint    `json:"noise"`
			Depth  uint    `json:"depth"`
			Book   bool    `json:"book"`
			Seed   int64   `json:"seed"`
			Delay  *int    `json:"delay"`
		}
		if err := json.Unmarshal(data, &list); err != nil {
			out.Fatalf("parse %v: %v", *scripts, err)
		}
		for i, sc := range list {
			if sc.Stub == nil { // a behaviour generated from Uci.tla: stub search, three delay settings
				run(sc.Name, sc.Steps, nil, true, ucih.EngineSpec{Name: "stub"}, []int{0, 25, 60}[i%3])
				continue
			}
			// a recorded scenario run again (with its engine and delay setting)
			spec := ucih.EngineSpec{Name: sc.Engine, Hash: sc.Hash, Noise: sc.Noise, Depth: sc.Depth, Book: sc.Book, Seed: sc.Seed}
			dly := 0
			if sc.Delay != nil {
				dly = *sc.Delay
			}
			var rules []sched.Rule
			for _, d := range directedAll() {
				if d.name == sc.Name {
					rules = d.rules
				}
			}
			run(sc.Name, sc.Steps, rules, *sc.Stub, spec, dly)
		}
	case "directed":
		for _, d := range directedAll() {
			if *only == "list" {
				fmt.Println(d.name)
				continue
			}
			if *only != "" && *only != d.name {
				continue
			}
			run(d.name, d.steps, d.rules, true, ucih.EngineSpec{Name: "stub"}, 0)
		}
	case "clocks":
		// go commands with clocks, for both sides to move: little time and a large increment, very different
		// clocks for the two sides, one move to go, a clock for one side only - and random ones
		lines := []string{"go wtime 200 btime 200 winc 20000 binc 20000", "go winc 60000 binc 60000 wtime 50 btime 50 movestogo 2",
			"go wtime 100 btime 60000", "go wtime 60000 btime 100", "go wtime 40 btime 90000 movestogo 1", "go wtime 90000 btime 40 movestogo 1",
			"go wtime 30000", "go btime 30000", "go wtime 1 btime 1 movestogo 1", "go wtime 0 btime 0", "go movestogo 20",
			"go wtime 1000 btime 1000 winc 1000 binc 1000 movestogo 40", "go binc 5000 winc 5000 btime 10 wtime 10"}
		for i := 0; i < *n; i++ {
			lines = append(lines, fmt.Sprintf("go wtime %d btime %d winc %d binc %d movestogo %d", r.Intn(2000), r.Intn(2000), r.Intn(100000), r.Intn(100000), r.Intn(5)))
		}
		for i, l := range lines {
			for _, pos := range []string{"position startpos", "position startpos moves e2e4"} {
				steps := []stepT{{Kind: "cmd", Arg: pos}, {Kind: "cmd", Arg: l}, {Kind: "release", K: 1, D: 1}, {Kind: "pause", D: 2},
					{Kind: "cmd", Arg: "stop"}, {Kind: "cmd", Arg: "isready"}}
				run(fmt.Sprintf("clocks-%d-%v", i, len(pos) > 20), steps, nil, true, ucih.EngineSpec{Name: "stub"}, *delay)
			}
		}
	case "stub":
		for i := 0; i < *n; i++ {
			run(fmt.Sprintf("random-%d-%d", *seed, i), randomScript(r, true), nil, true, ucih.EngineSpec{Name: "stub", Hash: uint(r.Intn(2))}, *delay)
		}
	case "real":
		names := []string{"morlock", "turochamp", "sargon", "bernstein"}
		for i := 0; i < *n; i++ {
			spec := ucih.EngineSpec{Name: names[i%4], Hash: uint(r.Intn(2)) * 1, Noise: uint(r.Intn(2)) * 10, Depth: uint(1 + r.Intn(2)), Book: r.Intn(2) == 0, Seed: r.Int63()}
			if spec.Name == "morlock" {
				spec.Depth = 0
			}
			steps := realScript(r)
			run(fmt.Sprintf("real-%v-%d-%d", spec.Name, *seed, i), steps, nil, false, spec, *delay)
		}
		// the same root searched deeper first and shallower afterwards, with the hash table on (what the table
		// holds from the deeper search must not keep the shallower ones from ending)
		for i := 0; i < 3; i++ {
			e := lightCorpus()[r.Intn(len(lightCorpus()))]
			spec := ucih.EngineSpec{Name: "morlock", Hash: 1, Seed: r.Int63()}
			steps := []stepT{{Kind: "cmd", Arg: "position fen " + e.Fen}, {Kind: "cmd", Arg: "go depth 3"}, {Kind: "pause", D: 150},
				{Kind: "cmd", Arg: "go depth 1"}, {Kind: "pause", D: 60}, {Kind: "cmd", Arg: "go depth 2"}, {Kind: "pause", D: 80},
				{Kind: "cmd", Arg: "isready"}, {Kind: "pause", D: 10}}
			run(fmt.Sprintf("real-deeper-then-shallower-%d-%d", *seed, i), steps, nil, false, spec, *delay)
		}
		// roots whose best move is a promotion, with and without capture, for both colours: the answer must
		// name the promotion piece
		for i, f := range []string{"r6k/1P6/8/8/8/8/8/K7 w - - 0 1", "k7/8/8/8/8/8/1p6/R6K b - - 0 1", "1n2k3/P7/8/8/8/8/8/4K3 w - - 0 1",
			"4k3/8/8/8/8/8/6p1/4K2R b - - 0 1", "7k/1P6/8/8/8/8/8/K7 w - - 0 1", "k7/8/8/8/8/8/1p6/7K b - - 0 1"} {
			spec := ucih.EngineSpec{Name: names[(i+int(*seed))%4], Hash: uint(r.Intn(2)), Depth: uint(1 + r.Intn(2)), Seed: r.Int63()}
			if spec.Name == "morlock" {
				spec.Depth = 0
			}
			steps := []stepT{{Kind: "cmd", Arg: "position fen " + f}, {Kind: "cmd", Arg: "go depth 2"}, {Kind: "pause", D: 40}, {Kind: "cmd", Arg: "isready"}, {Kind: "pause", D: 10}}
			run(fmt.Sprintf("real-promotion-%v-%d-%d", spec.Name, *seed, i), steps, nil, false, spec, *delay)
		}
		// roots in which a draw can be claimed (hundred half-moves) and the side to move is in check with an
		// illegal capture at hand: every engine must still answer with a legal move
		for i := 0; i < *n*3; i++ {
			g, ok := drawnRoot(r, lightCorpus()[r.Intn(len(lightCorpus()))].Fen)
			if !ok {
				continue
			}
			spec := ucih.EngineSpec{Name: names[i%4], Hash: uint(r.Intn(2)), Depth: uint(1 + r.Intn(2)), Seed: r.Int63()}
			if spec.Name == "morlock" {
				spec.Depth = 0
			}
			steps := []stepT{{Kind: "cmd", Arg: g.line()}, {Kind: "cmd", Arg: "go depth 1"}, {Kind: "pause", D: 30}, {Kind: "cmd", Arg: "isready"}, {Kind: "pause", D: 10}}
			run(fmt.Sprintf("real-drawnroot-%v-%d-%d", spec.Name, *seed, i), steps, nil, false, spec, *delay)
		}
		// the generic engine with a book built from lines: asked at book positions and at positions that
		// differ from a book position only in the en passant right (a reordered prefix)
		lines := ucih.EpLines()
		for i := 0; i < *n/4+2; i++ {
			line := lines[r.Intn(len(lines))]
			k := len(line) - 1
			prefix := append([]string{}, line[:k]...)
			if r.Intn(3) != 0 {
				// swap two moves of one side, if the reordered line is still a legal game
				alt := append([]string{}, prefix...)
				a := r.Intn(k)
				if b := a + 2; b < k {
					alt[a], alt[b] = alt[b], alt[a]
				} else if b := a - 2; b >= 0 {
					alt[a], alt[b] = alt[b], alt[a]
				}
				if legalLine(alt) {
					prefix = alt
				}
			}
			spec := ucih.EngineSpec{Name: "linebook", Book: true, Seed: r.Int63()}
			steps := []stepT{{Kind: "cmd", Arg: "position startpos moves " + strings.Join(prefix, " ")},
				{Kind: "cmd", Arg: "go depth 1"}, {Kind: "pause", D: 40}, {Kind: "cmd", Arg: "isready"}, {Kind: "pause", D: 20}}
			run(fmt.Sprintf("real-linebook-%d-%d", *seed, i), steps, nil, false, spec, *delay)
		}
	}
	w.Close()
	_ = os.Stdout
	_ = strings.TrimSpace
}

// legalLine: the moves form a legal game from the start position.
func legalLine(moves []string) bool {
	pos, turn, np, fm, _ := fen.Decode(fen.Initial)
	b := board.NewBoard(board.NewZobristTable(0), pos, turn, np, fm)
	for _, t := range moves {
		ok := false
		for _, m := range b.Position().PseudoLegalMoves(b.Turn()) {
			if moveText(m) == t && b.PushMove(m) {
				ok = true
				break
			}
		}
		if !ok {
			return false
		}
	}
	return true
}

// realScript: sessions for the real searches: small depths, stop after infinite, movetime.
// lightCorpus: positions whose shallow searches (quiescence included) finish at once.
func lightCorpus() []corpus.Entry {
	var ret []corpus.Entry
	for _, e := range corpus.All() {
		f := e.Fen
		if strings.Contains(f, "QQQ") || strings.Contains(f, "qqq") || strings.Contains(f, "NNNN") || strings.Contains(f, "B1B1") ||
			strings.Contains(f, "PPPPPPPP/8/8/pppppppp") || strings.Contains(f, "n1n1") {
			continue
		}
		ret = append(ret, e)
	}
	return ret
}

// drawnRoot: a game whose last move completes the hundredth half-move without progress, so that a draw
// can be claimed in the position to be searched; moves that give check are preferred (the side to move
// then has few legal moves among many pseudo-legal ones). ok = false if the position offers no such move.
func drawnRoot(r *rand.Rand, f string) (gameT, bool) {
	parts := strings.Split(f, " ")
	if len(parts) != 6 {
		return gameT{}, false
	}
	parts[3], parts[4], parts[5] = "-", "99", "80"
	g := gameT{start: "fen " + strings.Join(parts, " ")}
	b := shadow(g)
	var quiet, checks []board.Move
	for _, m := range b.Position().PseudoLegalMoves(b.Turn()) {
		if m.Type != board.Normal {
			continue // pawn moves, captures, castling: not this one
		}
		next, ok := b.Position().Move(m)
		if !ok {
			continue
		}
		if len(next.LegalMoves(b.Turn().Opponent())) == 0 {
			continue // mate or stalemate: nothing to search
		}
		quiet = append(quiet, m)
		// ... and among those, positions in which some capture is pseudo-legal but not legal
		opp := b.Turn().Opponent()
		trap := false
		for _, x := range next.PseudoLegalMoves(opp) {
			if _, legal := next.Move(x); !legal && x.IsCapture() {
				trap = true
			}
		}
		if next.IsChecked(opp) && trap {
			checks = append(checks, m)
		}
	}
	pick := quiet
	if len(checks) > 0 && r.Intn(4) != 0 {
		pick = checks
	}
	if len(pick) == 0 {
		return gameT{}, false
	}
	g.moves = []string{moveText(pick[r.Intn(len(pick))])}
	return g, true
}

func realScript(r *rand.Rand) []stepT {
	var steps []stepT
	all := lightCorpus()
	g := gameT{start: "startpos"}
	if r.Intn(3) != 0 {
		g = gameT{start: "fen " + all[r.Intn(len(all))].Fen}
	}
	g = extend(r, g, r.Intn(6))
	if r.Intn(4) == 0 {
		if dg, ok := drawnRoot(r, all[r.Intn(len(all))].Fen); ok {
			g = dg
		}
	}
	steps = append(steps, stepT{Kind: "cmd", Arg: g.line()})
	if r.Intn(3) == 0 {
		// rapid fire, no pauses: a search is stopped (or superseded) and the same game is continued at once, while
		// the halted search may still be unwinding
		for k := 0; k < 3+r.Intn(4); k++ {
			steps = append(steps, stepT{Kind: "cmd", Arg: "go infinite"})
			if r.Intn(2) == 0 {
				steps = append(steps, stepT{Kind: "pause", D: r.Intn(3)})
			}
			if r.Intn(3) != 0 {
				steps = append(steps, stepT{Kind: "cmd", Arg: "stop"})
			}
			g = extend(r, g, 1+r.Intn(2))
			steps = append(steps, stepT{Kind: "cmd", Arg: g.line()})
		}
		steps = append(steps, stepT{Kind: "cmd", Arg: "go depth 1"}, stepT{Kind: "pause", D: 30}, stepT{Kind: "cmd", Arg: "isready"}, stepT{Kind: "pause", D: 10})
		return steps
	}
	for i := 0; i < 1+r.Intn(3); i++ {
		switch r.Intn(6) {
		case 0:
			steps = append(steps, stepT{Kind: "cmd", Arg: "go infinite"}, stepT{Kind: "pause", D: 1 + r.Intn(10)}, stepT{Kind: "cmd", Arg: "stop"})
		case 1:
			steps = append(steps, stepT{Kind: "cmd", Arg: fmt.Sprintf("go movetime %d", 1+r.Intn(20))})
		case 2:
			steps = append(steps, stepT{Kind: "cmd", Arg: []string{fmt.Sprintf("go wtime %d btime %d", 50+r.Intn(500), 50+r.Intn(500)),
				"go wtime 0 btime 0", "go movestogo 10", "go wtime 400", "go btime 400", "go wtime 300 btime 300 winc 10 binc 10",
				"go nodes 2000 depth 1", "go mate 2 depth 1", "go searchmoves e2e4 depth 1"}[r.Intn(9)]})
		default:
			steps = append(steps, stepT{Kind: "cmd", Arg: fmt.Sprintf("go depth %d", 1+r.Intn(2))})
		}
		steps = append(steps, stepT{Kind: "pause", D: 20 + r.Intn(40)})
		if r.Intn(2) == 0 {
			steps = append(steps, stepT{Kind: "cmd", Arg: "isready"})
		}
		if r.Intn(2) == 0 {
			g = extend(r, g, 1+r.Intn(2))
			steps = append(steps, stepT{Kind: "pause", D: 30}, stepT{Kind: "cmd", Arg: g.line()})
		}
	}
	steps = append(steps, stepT{Kind: "pause", D: 60})
	return steps
}
