package main

import (
	"context"
	"flag"
	"math"
	"math/rand"
	"strings"

	"github.com/herohde/morlock/pkg/board"
	"github.com/herohde/morlock/pkg/board/fen"
	"github.com/herohde/morlock/pkg/eval"
	"github.com/herohde/morlock/pkg/search"
	"verif/harness/internal/corpus"
	"verif/harness/internal/gen"
	"verif/harness/internal/out"
	"verif/harness/internal/proj"
	"verif/harness/internal/sdump"
)

func init() {
	register("searchtrace", "dump game trees and record what the real searches return on them (C03 C11 C12 C13 C18)", searchtrace)
}

// root positions aimed at search: mates, ladders, promotions, quiet middlegames
var searchRoots = []string{
	"6k1/3R4/8/1K6/8/8/4R3/8 b - - 0 1", // two rooks: mated in 4 by the longest defence
	"6k1/3R4/8/1K6/8/8/4R3/8 w - - 0 1",
	"7k/8/5K2/8/8/8/8/R7 w - - 0 1",
	"7k/8/5K2/8/8/8/8/R7 b - - 0 1",
	"8/8/8/3k4/8/8/1Q6/K7 w - - 0 1",
	"k7/8/1K6/8/8/8/8/6Q1 w - - 0 1",
	"k7/2K5/8/8/8/8/8/7Q b - - 0 1",
	"6k1/5ppp/8/8/8/8/8/R3K3 w Q - 0 1",
	"6rk/6pp/8/6N1/8/8/8/4K3 w - - 0 1",
	"8/5P1k/7p/8/8/8/8/6K1 w - - 0 1",
	"5k2/5P2/5K2/8/8/8/8/8 w - - 0 1",   // stalemate traps
	"7k/5Q2/6K1/8/8/8/8/8 b - - 0 1",    // stalemate
	"R5k1/5ppp/8/8/8/8/8/4K3 b - - 0 1", // checkmated
	"r3k2r/p1ppqpb1/bn2pnp1/3PN3/1p2P3/2N2Q1p/PPPBBPPP/R3K2R w KQkq - 0 1",
	"rnbqkbnr/pppppppp/8/8/8/8/PPPPPPPP/RNBQKBNR w KQkq - 0 1",
	"r1bqk1nr/pppp1ppp/2n5/2b1p3/2B1P3/5N2/PPPP1PPP/RNBQK2R w KQkq - 4 4",
	"8/pp3k2/2p5/3p4/3P1P2/2P3P1/PP3K2/8 w - - 0 30",
	"8/5pk1/6p1/8/3r4/6P1/5PK1/3R4 b - - 3 40",
	"1n2k3/P7/8/8/8/8/7p/4K1N1 w - - 0 1",
	"8/8/8/8/8/2k5/1n6/K7 w - - 0 1",
	"4k3/8/8/8/8/8/3p4/R3K2R w KQ - 0 1",
	"8/8/8/3k4/8/8/1R6/K7 w - - 96 80", // fifty-move draws inside the tree
	"3k4/8/3K4/8/8/8/8/7R w - - 0 1",
	"8/8/8/8/8/5k2/6q1/7K w - - 0 1",
	"2k5/8/8/8/8/8/1r6/K1r5 w - - 0 1",
	"4k3/4P3/4K3/8/8/8/8/8 b - - 0 1",
}

// small endgames in which the side to move is mated in 4 plies by two or more equally long
// defences: the family where a bound returned by a fail-low child, incremented on the way
// up, can beat the true value (found with `vh abdiff` on the tree as first pinned)
var ladderRoots = []string{
	"5k2/5R2/8/8/5R2/8/8/6K1 b - - 14 21",
	"8/4r3/8/5k1K/8/8/8/8 w - - 8 49",
	"8/8/3K4/8/2p5/8/2R3R1/2k5 b - - 16 35",
	"6K1/4k3/8/8/8/8/8/6q1 w - - 14 45",
	"6k1/3Q4/8/5P2/6K1/8/8/8 b - - 13 33",
	"2K5/6r1/8/8/8/k7/r7/8 w - - 18 19",
	"8/8/1R6/8/7k/4K3/6R1/8 b - - 4 44",
	"8/2Q5/8/8/8/5K2/4P2k/8 b - - 15 21",
	"8/8/1k6/8/8/KR6/8/2Q5 b - - 3 5",
	"8/6k1/R3Q3/8/8/8/8/3K4 b - - 5 24",
}

// stalemates in which the stalemated side is materially ahead (its static evaluation is positive), and
// positions one move before them: a quiescence search must rate them 0, not "at least the stand-pat"
var richStalemates = []string{
	"7k/8/8/8/8/p1p5/P1P5/KB6 w - - 0 1",
	"kb6/p1p5/P1P5/8/8/8/8/7K b - - 0 1",
	"7k/8/8/8/2p5/p7/P1P5/KB6 b - - 0 1",
	"kb6/p1p5/P7/2P5/8/8/8/7K w - - 0 1",
	"7k/8/8/8/8/p1p5/P1P4n/KB5R b - - 0 1",
}

type rootT struct {
	b    *board.Board
	desc string
}

// makeRoots builds boards with histories: fresh set-ups, positions reached by random play
// (so that last-move dependent heuristics and repetition counts have something to look
// at), and positions one or two plies before a repetition.
// randomEndgame: a random legal K + (Q | R | RR | QR | B+N | P) v K (+ maybe a minor)
// placement: forced mates of various lengths, stalemate traps, many equal-length lines.
func randomEndgame(r *rand.Rand) string {
	sets := [][]board.Piece{{board.Queen}, {board.Rook}, {board.Rook, board.Rook}, {board.Queen, board.Rook},
		{board.Bishop, board.Knight}, {board.Pawn}, {board.Queen, board.Pawn}, {board.Rook, board.Pawn}}
	for {
		strong := board.Color(r.Intn(2))
		var pieces []board.Placement
		used := map[board.Square]bool{}
		put := func(c board.Color, p board.Piece) {
			for {
				sq := board.Square(r.Intn(64))
				if used[sq] || (p == board.Pawn && (sq.Rank() == board.Rank1 || sq.Rank() == board.Rank8)) {
					continue
				}
				used[sq] = true
				pieces = append(pieces, board.Placement{Square: sq, Color: c, Piece: p})
				return
			}
		}
		put(strong, board.King)
		put(strong.Opponent(), board.King)
		for _, p := range sets[r.Intn(len(sets))] {
			put(strong, p)
		}
		if r.Intn(4) == 0 {
			put(strong.Opponent(), []board.Piece{board.Knight, board.Bishop, board.Pawn}[r.Intn(3)])
		}
		pos, err := board.NewPosition(pieces, board.NoCastlingRights, board.ZeroSquare)
		if err != nil || pos == nil {
			continue
		}
		turn := board.Color(r.Intn(2))
		if r.Intn(3) != 0 {
			turn = strong.Opponent() // mostly the defender to move
		}
		if pos.IsChecked(turn.Opponent()) {
			continue
		}
		wk, bk := pos.KingSquare(board.White), pos.KingSquare(board.Black)
		if board.KingAttackboard(wk)&board.BitMask(bk) != 0 {
			continue
		}
		return fen.Encode(pos, turn, r.Intn(20), 1+r.Intn(60))
	}
}

func makeRoots(r *rand.Rand, n int, heavy, mates, ladders bool) []rootT {
	var ret []rootT
	zt := board.NewZobristTable(r.Int63())
	mk := func(f string) *board.Board {
		pos, turn, np, fm, err := fen.Decode(f)
		if err != nil || pos == nil {
			out.Fatalf("bad fen %v", f)
		}
		return board.NewBoard(zt, pos, turn, np, fm)
	}
	pool := append([]string{}, searchRoots...)
	if heavy {
		for _, e := range corpus.All() {
			pool = append(pool, e.Fen)
		}
	}
	if ladders {
		for i := 0; i < n && i < len(ladderRoots); i++ {
			ret = append(ret, rootT{b: mk(ladderRoots[i]), desc: ladderRoots[i]})
		}
		return ret
	}
	g := gen.New(r.Int63(), nil, gen.Flags{})
	for i := 0; len(ret) < n; i++ {
		f := pool[r.Intn(len(pool))]
		if i < len(searchRoots) && !mates {
			f = searchRoots[i]
		}
		if mates || r.Intn(4) == 0 {
			f = randomEndgame(r)
		}
		b := mk(f)
		desc := f
		switch r.Intn(4) {
		case 1, 2: // random continuation
			k := 1 + r.Intn(10)
			for j := 0; j < k; j++ {
				legal, _ := gen.LegalOf(b)
				if len(legal) == 0 || b.Result().Outcome == board.Draw {
					break
				}
				m := g.Pick(legal)
				b.PushMove(m)
				desc += " " + m.String()
			}
		case 3: // shuffle towards a repetition, stop early
			k := 3 + r.Intn(5)
			for j := 0; j < k; j++ {
				legal, _ := gen.LegalOf(b)
				if len(legal) == 0 {
					break
				}
				m, ok := gen.Reverse(b, legal)
				if !ok || j < 2 {
					m = g.PickQuiet(legal)
				}
				b.PushMove(m)
				desc += " " + m.String()
				if b.Result().Outcome == board.Draw {
					b.PopMove()
					break
				}
			}
		}
		if legal, _ := gen.LegalOf(b); len(legal) == 0 && r.Intn(3) != 0 {
			if _, ok := b.PopMove(); !ok {
				// terminal set-up: keep some
			}
		}
		ret = append(ret, rootT{b: b, desc: desc})
	}
	if !mates && !heavy {
		for _, f := range richStalemates {
			ret = append(ret, rootT{b: mk(f), desc: f})
		}
	}
	return ret
}

func scoreNeighbours(s eval.Score) []eval.Score {
	ret := []eval.Score{eval.NegInfScore, eval.InfScore, eval.ZeroScore,
		eval.HeuristicScore(1), eval.HeuristicScore(-1), eval.HeuristicScore(3), eval.HeuristicScore(-3),
		eval.MateInXScore(1), eval.MateInXScore(2), eval.MateInXScore(3), eval.MateInXScore(4),
		eval.MateInXScore(-1), eval.MateInXScore(-2), eval.MateInXScore(-3), eval.MateInXScore(-4)}
	switch s.Type {
	case eval.Heuristic:
		f := float32(s.Pawns)
		ret = append(ret, s, eval.HeuristicScore(eval.Pawns(math.Nextafter32(f, float32(math.Inf(1))))),
			eval.HeuristicScore(eval.Pawns(math.Nextafter32(f, float32(math.Inf(-1))))))
	case eval.MateInX:
		for d := -2; d <= 2; d++ {
			k := int(s.Mate) + d
			if k != 0 && (k > 0) == (s.Mate > 0) {
				ret = append(ret, eval.MateInXScore(int8(k)))
			}
		}
	}
	return ret
}

func searchtrace(args []string) {
	fs := flag.NewFlagSet("searchtrace", flag.ExitOnError)
	mode := fs.String("mode", "c03", "c03 | c13 | c11 | c12 | c18")
	seed := fs.Int64("seed", 1, "random seed")
	n := fs.Int("n", 10, "number of roots")
	depth := fs.Int("depth", 3, "maximum depth")
	cfgs := fs.String("cfgs", "morlock,hash", "configurations")
	limit := fs.Int("limit", 60000, "skip roots whose dump exceeds this many nodes")
	windows := fs.Int("windows", 30, "c13: windows per root")
	polls := fs.Int("polls", 3000, "c12: maximum number of cancellation points per search (all if the search has fewer)")
	heavy := fs.Bool("heavy", false, "use the whole corpus as root pool")
	mates := fs.Bool("mates", false, "random small endgames only")
	ladders := fs.Bool("ladders", false, "the fixed equal-length-mate regression roots only")
	path := fs.String("out", "", "output ndjson")
	_ = fs.Parse(args)

	r := rand.New(rand.NewSource(*seed))
	w := out.Create(*path)
	ctx := context.Background()
	names := strings.Split(*cfgs, ",")
	roots := makeRoots(r, *n, *heavy, *mates, *ladders)
	probed := false

	for i, root := range roots {
		name := names[i%len(names)]
		c := sdump.NewConfig(name)
		if c == nil {
			out.Fatalf("unknown config %v", name)
		}
		d := *depth
		// big positions: shallower dumps
		if root.b.Position().All().PopCount() > 12 && d > 3 {
			d = 3
		}
		if root.b.Position().All().PopCount() > 24 && d > 2 && c.Cfg != "static" {
			d = 2
		}
		switch *mode {
		case "c03":
			doC03(ctx, w, c, root, d, *limit)
		case "c13":
			for x := d; x >= 1 && !doC13(ctx, w, r, c, root, x, *limit, *windows); x-- {
			}
		case "c11":
			if !probed {
				probed = true
				ttProbe(ctx, w, r)
			}
			for x := d; x >= 1 && !doC11(ctx, w, r, c, root, x, *limit); x-- {
			}
		case "c12":
			for x := d; x >= 1 && !doC12(ctx, w, r, c, root, x, *limit, *polls); x-- {
			}
		case "c18":
			doC18(ctx, w, r, name, root, d)
		case "x03":
			doPonder(ctx, w, r, c, root, d, *limit)
		}
	}
	w.Close()
}

func dumpTree(ctx context.Context, w *out.Writer, c *sdump.Config, root rootT, depth, limit int, allV bool) (*sdump.Dumper, bool) {
	b := root.b.Fork()
	if c.Reset != nil {
		c.Reset(ctx, b)
	}
	// static leaves: every node gets its evaluation, so one dump serves every depth <= depth;
	// other leaf kinds hang a quiescence / extension subtree below the depth-d leaves only
	d := &sdump.Dumper{C: c, Limit: limit, Paths: map[string][]int{}, AllV: c.Cfg == "static"}
	tree := d.Main(ctx, b, depth, nil)
	if d.Over() {
		return d, false
	}
	mind := depth
	if c.Cfg == "static" {
		mind = 0
	}
	w.Emit(out.M{"op": "tree", "cfg": c.Cfg, "name": c.Name, "depth": depth, "mindepth": mind, "root": tree, "desc": root.desc,
		"nodes": d.Nodes, "rec": sdump.Rec(root.b), "posdet": proj.B2I(c.PosDet)})
	return d, true
}

func emptyCtx() *search.Context {
	return &search.Context{TT: search.NoTranspositionTable{}}
}

// doPonder: a search restricted to a line (search.Context.Ponder, used by the console driver's per-move
// breakdown): along the line only the line's move is explored. Beyond the listed properties (X03).
func doPonder(ctx context.Context, w *out.Writer, r *rand.Rand, c *sdump.Config, root rootT, depth, limit int) {
	if _, ok := c.Search.(search.AlphaBeta); !ok {
		return // only the alpha-beta search implements the restriction
	}
	if root.b.Result().Outcome == board.Draw {
		return
	}
	b := root.b.Fork()
	var line []board.Move
	for k := 0; k < 1+r.Intn(2) && k < depth; k++ {
		legal, _ := gen.LegalOf(b)
		if len(legal) == 0 || b.Result().Outcome == board.Draw {
			break
		}
		m := legal[r.Intn(len(legal))]
		line = append(line, m)
		b.PushMove(m)
	}
	if len(line) == 0 {
		return
	}
	fb := root.b.Fork()
	if c.Reset != nil {
		c.Reset(ctx, fb)
	}
	d := &sdump.Dumper{C: c, Limit: limit, Ponder: line}
	tree := d.Main(ctx, fb, depth, nil)
	if d.Over() {
		return
	}
	w.Emit(out.M{"op": "tree", "cfg": c.Cfg, "name": c.Name, "depth": depth, "mindepth": depth, "root": tree, "desc": root.desc,
		"nodes": d.Nodes, "rec": sdump.Rec(root.b), "posdet": proj.B2I(c.PosDet)})
	sb := root.b.Fork()
	rec0 := sdump.Rec(sb)
	nodes, score, pv, err := c.Search.Search(ctx, &search.Context{TT: search.NoTranspositionTable{}, Ponder: line}, sb, depth)
	w.Emit(out.M{"op": "psearch", "depth": depth, "a": proj.ScoreOf(eval.NegInfScore), "b": proj.ScoreOf(eval.InfScore), "tt": "none",
		"res": sdump.ResultOf(nodes, score, pv, err), "rec0": rec0, "rec1": sdump.Rec(sb), "writes": []int{}})
}

func doC03(ctx context.Context, w *out.Writer, c *sdump.Config, root rootT, depth, limit int) {
	if c.Cfg != "static" {
		for d := 1; d <= depth; d++ {
			doC03at(ctx, w, c, root, d, d, limit)
		}
		return
	}
	for d := depth; d >= 1; d-- { // too big: retry one ply shallower
		if doC03at(ctx, w, c, root, 1, d, limit) {
			return
		}
	}
}

func doC03at(ctx context.Context, w *out.Writer, c *sdump.Config, root rootT, from, depth, limit int) bool {
	if _, ok := dumpTree(ctx, w, c, root, depth, limit, false); !ok {
		return false
	}
	for d := from; d <= depth; d++ {
		b := root.b.Fork()
		rec0 := sdump.Rec(b)
		nodes, score, pv, err := c.Search.Search(ctx, emptyCtx(), b, d)
		w.Emit(out.M{"op": "search", "depth": d, "a": proj.ScoreOf(eval.NegInfScore), "b": proj.ScoreOf(eval.InfScore), "tt": "none",
			"res": sdump.ResultOf(nodes, score, pv, err), "rec0": rec0, "rec1": sdump.Rec(b), "writes": []int{}})
	}
	return true
}

func doC13(ctx context.Context, w *out.Writer, r *rand.Rand, c *sdump.Config, root rootT, depth, limit, windows int) bool {
	if _, ok := dumpTree(ctx, w, c, root, depth, limit, false); !ok {
		return false
	}
	from := 1
	if c.Cfg != "static" {
		from = depth
	}
	for d := from; d <= depth; d++ {
		b := root.b.Fork()
		_, full, _, _ := c.Search.Search(ctx, emptyCtx(), b, d)
		cand := scoreNeighbours(full)
		for k := 0; k < windows; k++ {
			a, bb := cand[r.Intn(len(cand))], cand[r.Intn(len(cand))]
			if !a.Less(bb) {
				a, bb = bb, a
			}
			if a == bb {
				continue
			}
			sctx := halfOpen(r, &a, &bb)
			fb := root.b.Fork()
			rec0 := sdump.Rec(fb)
			nodes, score, pv, err := c.Search.Search(ctx, sctx, fb, d)
			w.Emit(out.M{"op": "search", "depth": d, "a": proj.ScoreOf(a), "b": proj.ScoreOf(bb), "tt": "none",
				"res": sdump.ResultOf(nodes, score, pv, err), "rec0": rec0, "rec1": sdump.Rec(fb), "writes": []int{}})
		}
	}
	// direct quiescence calls on the root and on positions below it
	if c.Cfg == "qs" {
		b := root.b.Fork()
		for step := 0; step < 4; step++ {
			dq := &sdump.Dumper{C: c, Limit: limit}
			qt := dq.Quiet(ctx, b.Fork())
			if dq.Over() {
				break
			}
			w.Emit(out.M{"op": "qtree", "root": qt, "name": c.Name})
			_, full := c.Quiet.QuietSearch(ctx, emptyCtx(), b.Fork())
			w.Emit(out.M{"op": "qsearch", "a": proj.ScoreOf(eval.NegInfScore), "b": proj.ScoreOf(eval.InfScore), "res": proj.ScoreOf(full)})
			cand := scoreNeighbours(full)
			for k := 0; k < windows/2; k++ {
				a, bb := cand[r.Intn(len(cand))], cand[r.Intn(len(cand))]
				if !a.Less(bb) {
					a, bb = bb, a
				}
				if a == bb {
					continue
				}
				sctx := halfOpen(r, &a, &bb)
				fb := b.Fork()
				_, score := c.Quiet.QuietSearch(ctx, sctx, fb)
				w.Emit(out.M{"op": "qsearch", "a": proj.ScoreOf(a), "b": proj.ScoreOf(bb), "res": proj.ScoreOf(score)})
			}
			legal, _ := gen.LegalOf(b)
			if len(legal) == 0 || b.Result().Outcome == board.Draw {
				break
			}
			// prefer captures so that the quiescence tree is not trivial
			m := legal[r.Intn(len(legal))]
			for _, x := range legal {
				if x.IsCapture() && r.Intn(2) == 0 {
					m = x
				}
			}
			b.PushMove(m)
		}
	}
	return true
}

// halfOpen builds the context for a window; one time in four only the lower bound is given and one time in
// four only the upper one (a bound that is not set is no bound: the recorded window says so).
func halfOpen(r *rand.Rand, a, b *eval.Score) *search.Context {
	sctx := &search.Context{Alpha: *a, Beta: *b, TT: search.NoTranspositionTable{}}
	switch r.Intn(4) {
	case 0:
		sctx.Beta = eval.Score{}
		*b = eval.InfScore
	case 1:
		sctx.Alpha = eval.Score{}
		*a = eval.NegInfScore
	}
	return sctx
}

var ttSizes = []uint64{32, 64, 4 << 10, 1 << 20}

// ttProbe: an entry is found under its own hash and under no hash that differs from it in a single bit
// (the slot is selected by some bits, the rest must be verified), for tables of several sizes.
func ttProbe(ctx context.Context, w *out.Writer, r *rand.Rand) {
	for _, size := range []uint64{32, 64, 1 << 10, 1 << 20} {
		tt := search.NewTranspositionTable(ctx, size)
		h := board.ZobristHash(r.Uint64())
		tt.Write(h, search.ExactBound, 3, 2, eval.HeuristicScore(1), board.Move{From: board.E2, To: board.E4})
		_, _, _, _, own := tt.Read(h)
		other := []int{}
		for bit := 0; bit < 64; bit++ {
			if _, _, _, _, hit := tt.Read(h ^ board.ZobristHash(uint64(1)<<uint(bit))); hit {
				other = append(other, bit)
			}
		}
		w.Emit(out.M{"op": "ttprobe", "size": int(size), "own": proj.B2I(own), "other": other})
	}
}

func doC11(ctx context.Context, w *out.Writer, r *rand.Rand, c *sdump.Config, root rootT, depth, limit int) bool {
	d, ok := dumpTree(ctx, w, c, root, depth, limit, true)
	if !ok {
		return false
	}
	size := ttSizes[r.Intn(len(ttSizes))]
	tt := &sdump.RecTT{Inner: search.NewTranspositionTable(ctx, size)}
	scen := r.Intn(8) // iterative deepening (0, 5, 6, 7) half of the time: each iteration finds the entries of the one before
	if scen >= 5 {
		scen = 0
	}
	var depths []int
	switch scen {
	case 3: // a shallower search after a deeper one
		for x := depth; x >= 1; x-- {
			depths = append(depths, x)
		}
	case 4: // deep, shallow, deep again
		depths = []int{depth, 1, depth - 1, depth}
		if depth < 2 {
			depths = []int{depth, depth}
		}
	case 0: // iterative deepening
		for x := 1; x <= depth; x++ {
			depths = append(depths, x)
		}
	case 1: // the same depth twice, then deeper
		depths = []int{depth, depth}
	default:
		depths = []int{1 + r.Intn(depth), 1 + r.Intn(depth), depth}
	}
	if c.Cfg != "static" {
		depths = []int{depth, depth, depth} // the dump carries quiescence subtrees at its own depth only
	}
	// sometimes searches that were HALTED midway have used the table before (what they stored is part of
	// the writes judged with the next search, and must not disturb it)
	if r.Intn(2) == 0 {
		dry := sdump.NewCountCtx(0)
		_, _, _, _ = c.Search.Search(dry, &search.Context{TT: search.NoTranspositionTable{}}, root.b.Fork(), depth)
		for k := 0; k < 3 && dry.Polls > 1; k++ {
			cc := sdump.NewCountCtx(1 + r.Intn(dry.Polls))
			_, _, _, _ = c.Search.Search(cc, &search.Context{TT: tt}, root.b.Fork(), depth)
		}
	}
	for _, x := range depths {
		b := root.b.Fork()
		rec0 := sdump.Rec(b)
		sctx := &search.Context{TT: tt}
		nodes, score, pv, err := c.Search.Search(ctx, sctx, b, x)
		w.Emit(out.M{"op": "search", "depth": x, "a": proj.ScoreOf(eval.NegInfScore), "b": proj.ScoreOf(eval.InfScore), "tt": "shared", "ttsize": size,
			"res": sdump.ResultOf(nodes, score, pv, err), "rec0": rec0, "rec1": sdump.Rec(b), "writes": tt.Take(d.Paths),
			"reads": tt.Reads, "hits": tt.Hits})
	}
	// successive positions of a game on the same table: play a move and search the new root
	if c.Cfg == "static" && depth >= 2 && r.Intn(2) == 0 {
		legal, _ := gen.LegalOf(root.b)
		if len(legal) > 0 {
			nb := root.b.Fork()
			nb.PushMove(legal[r.Intn(len(legal))])
			next := rootT{b: nb, desc: root.desc + " +1"}
			d2, ok := dumpTree(ctx, w, c, next, depth-1, limit, true)
			if ok {
				for x := 1; x <= depth-1; x++ {
					b := nb.Fork()
					rec0 := sdump.Rec(b)
					nodes, score, pv, err := c.Search.Search(ctx, &search.Context{TT: tt}, b, x)
					w.Emit(out.M{"op": "search", "depth": x, "a": proj.ScoreOf(eval.NegInfScore), "b": proj.ScoreOf(eval.InfScore), "tt": "shared", "ttsize": size,
						"res": sdump.ResultOf(nodes, score, pv, err), "rec0": rec0, "rec1": sdump.Rec(b), "writes": tt.Take(d2.Paths),
						"reads": tt.Reads, "hits": tt.Hits})
				}
			}
		}
	}
	return true
}

func doC12(ctx context.Context, w *out.Writer, r *rand.Rand, c *sdump.Config, root rootT, depth, limit, maxPolls int) bool {
	d, ok := dumpTree(ctx, w, c, root, depth, limit, true)
	if !ok {
		return false
	}
	// dry run: number of polls, and the result on a fresh table
	size := uint64(1 << 20)
	run := func(at int, tt search.TranspositionTable) (*sdump.CountCtx, sdump.Result, map[string]any, map[string]any) {
		b := root.b.Fork()
		rec0 := sdump.Rec(b)
		cc := sdump.NewCountCtx(at)
		nodes, score, pv, err := c.Search.Search(cc, &search.Context{TT: tt}, b, depth)
		return cc, sdump.ResultOf(nodes, score, pv, err), rec0, sdump.Rec(b)
	}
	dry, fresh, _, _ := run(0, search.NewTranspositionTable(ctx, size))
	total := dry.Polls
	w.Emit(out.M{"op": "dry", "depth": depth, "polls": total, "res": fresh})
	points := []int{}
	if total <= maxPolls {
		for i := 1; i <= total; i++ {
			points = append(points, i)
		}
	} else {
		seen := map[int]bool{}
		for _, i := range []int{1, 2, 3, total - 1, total} {
			seen[i] = true
		}
		for len(seen) < maxPolls {
			seen[1+r.Intn(total)] = true
		}
		for i := range seen {
			points = append(points, i)
		}
	}
	for _, at := range points {
		tt := &sdump.RecTT{Inner: search.NewTranspositionTable(ctx, size)}
		_, res, rec0, rec1 := run(at, tt)
		writes := tt.Take(d.Paths)
		tt.Off = true
		_, next, _, _ := run(0, tt)
		// only the exact writes are judged; keep the event small
		var exact []sdump.TTEvent
		for _, e := range writes {
			if e.Bound == int(search.ExactBound) {
				exact = append(exact, e)
			}
		}
		if exact == nil {
			exact = []sdump.TTEvent{}
		}
		w.Emit(out.M{"op": "cancel", "depth": depth, "poll": at, "res": res, "rec0": rec0, "rec1": rec1,
			"nwrites": len(writes), "writes": exact, "next": next, "fresh": fresh})
	}
	return true
}

func doC18(ctx context.Context, w *out.Writer, r *rand.Rand, name string, root rootT, depth int) {
	// left for the engine-level determinism generator (enginetrace)
}
