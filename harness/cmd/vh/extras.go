package main

import (
	"context"
	"flag"
	"math/rand"

	"github.com/herohde/morlock/pkg/board"
	"github.com/herohde/morlock/pkg/board/fen"
	"github.com/herohde/morlock/pkg/engine"
	"github.com/herohde/morlock/pkg/eval"
	"github.com/herohde/morlock/pkg/search"
	"verif/harness/internal/gen"
	"verif/harness/internal/out"
	"verif/harness/internal/proj"
)

func init() {
	register("extras", "behaviour beyond the listed properties: move ordering, selection, WriteLimited tables, books from lines", extras)
}

func extras(args []string) {
	fs := flag.NewFlagSet("extras", flag.ExitOnError)
	seed := fs.Int64("seed", 1, "seed")
	n := fs.Int("n", 200, "positions")
	path := fs.String("out", "", "output ndjson")
	_ = fs.Parse(args)
	r := rand.New(rand.NewSource(*seed))
	w := out.Create(*path)
	ctx := context.Background()
	roots := makeRoots(r, *n, true, false, false)

	for _, root := range roots {
		b := root.b
		moves := b.Position().PseudoLegalMoves(b.Turn())
		if len(moves) == 0 {
			continue
		}
		var metas [][]int
		var prio []int
		index := map[board.Move]int{}
		for i, m := range moves {
			metas = append(metas, proj.MoveMeta(m))
			prio = append(prio, int(search.MVVLVA(m)))
			index[m] = i + 1
		}
		// the priority queue, with and without a move put first
		first := 0
		fn := board.MovePriorityFn(search.MVVLVA)
		if r.Intn(2) == 0 {
			first = 1 + r.Intn(len(moves))
			fn = board.First(moves[first-1], search.MVVLVA)
		}
		ml := board.NewMoveList(moves, fn)
		var popped []int
		for {
			m, ok := ml.Next()
			if !ok {
				break
			}
			popped = append(popped, index[m])
		}
		w.Emit(out.M{"op": "movelist", "moves": metas, "prio": prio, "first": first, "popped": popped})

		// stable sort by priority
		cp := append([]board.Move{}, moves...)
		board.SortByPriority(cp, search.MVVLVA)
		var order []int
		for _, m := range cp {
			order = append(order, index[m])
		}
		w.Emit(out.M{"op": "sort", "prio": prio, "order": order})

		// selection of a random sub-list
		var list []board.Move
		var listIdx []int
		for _, i := range r.Perm(len(moves)) {
			if r.Intn(3) == 0 {
				list = append(list, moves[i])
				listIdx = append(listIdx, i+1)
			}
		}
		if listIdx == nil {
			listIdx = []int{}
		}
		pf, pick := search.Selection(list)
		var ranks, picks []int
		for _, m := range moves {
			ranks = append(ranks, int(pf(m)))
			picks = append(picks, proj.B2I(pick(m)))
		}
		w.Emit(out.M{"op": "selection", "n": len(moves), "list": listIdx, "ranks": ranks, "picks": picks})
	}

	// WriteLimited tables
	for i := 0; i < *n; i++ {
		min := r.Intn(4)
		tt := search.NewMinDepthTranspositionTable(min)(ctx, 1<<12)
		depth := r.Intn(5)
		h := board.ZobristHash(r.Uint64())
		stored := tt.Write(h, search.ExactBound, r.Intn(10), depth, eval.HeuristicScore(1), board.Move{})
		_, _, _, _, ok := tt.Read(h)
		w.Emit(out.M{"op": "wl", "min": min, "depth": depth, "stored": proj.B2I(stored), "readback": proj.B2I(ok)})
	}

	// books built from random legal lines from the start position
	for i := 0; i < *n/10+1; i++ {
		pos, turn, np, fm, _ := fen.Decode(fen.Initial)
		var lines []engine.Line
		var plain [][][]int
		for k := 0; k < 2+r.Intn(5); k++ {
			b := board.NewBoard(board.NewZobristTable(0), pos, turn, np, fm)
			var line engine.Line
			var pl [][]int
			for d := 0; d < 1+r.Intn(5); d++ {
				legal, _ := gen.LegalOf(b)
				if len(legal) == 0 {
					break
				}
				// few distinct choices, so that lines share prefixes and transpose
				m := legal[r.Intn(3)%len(legal)]
				b.PushMove(m)
				line = append(line, moveText(m))
				pl = append(pl, proj.Move(m))
			}
			lines = append(lines, line)
			plain = append(plain, pl)
		}
		book, err := engine.NewBook(lines)
		if err != nil {
			w.Emit(out.M{"op": "bookerror", "err": err.Error()})
			continue
		}
		var probes []out.M
		for _, line := range lines {
			b := board.NewBoard(board.NewZobristTable(0), pos, turn, np, fm)
			for k := 0; k <= len(line); k++ {
				f := fen.Encode(b.Position(), b.Turn(), b.NoProgress(), b.FullMoves())
				ms, _ := book.Find(ctx, f)
				mm := [][]int{}
				for _, m := range ms {
					mm = append(mm, proj.Move(m))
				}
				probes = append(probes, out.M{"pos": proj.Position(b.Position(), b.Turn()), "moves": mm})
				if k < len(line) {
					for _, m := range b.Position().PseudoLegalMoves(b.Turn()) {
						if moveText(m) == line[k] {
							b.PushMove(m)
							break
						}
					}
				}
			}
		}
		w.Emit(out.M{"op": "bookline", "start": proj.Position(pos, turn), "lines": plain, "probes": probes})
	}
	uciInfo(ctx, r, w, *n/2+1)
	w.Close()
}
