package main

import (
	"flag"
	"math/rand"

	"github.com/herohde/morlock/pkg/board"
	"verif/harness/internal/out"
	"verif/harness/internal/proj"
)

func init() {
	register("attacks", "enumerate the real attack tables over line occupancies (C06)", attacks)
}

// lines through a square, in specification coordinates: rank, file, diagonal, anti-diagonal
func lineSquares(s, line int) []int {
	f, r := s%8, s/8
	var ret []int
	for t := 0; t < 64; t++ {
		tf, tr := t%8, t/8
		if t == s {
			continue
		}
		switch line {
		case 0:
			if tr == r {
				ret = append(ret, t)
			}
		case 1:
			if tf == f {
				ret = append(ret, t)
			}
		case 2:
			if tf-f == tr-r {
				ret = append(ret, t)
			}
		case 3:
			if tf-f == -(tr - r) {
				ret = append(ret, t)
			}
		}
	}
	return ret
}

func subset(list []int, mask int) []int {
	ret := []int{}
	for i, s := range list {
		if mask&(1<<i) != 0 {
			ret = append(ret, s)
		}
	}
	return ret
}

func attackCase(occ []int, s int) out.M {
	rot := board.NewRotatedBitboard(proj.SquareSet(occ))
	sq := proj.FromSq(s)
	return out.M{
		"occ": occ,
		"r":   proj.Squares(board.RookAttackboard(rot, sq)),
		"b":   proj.Squares(board.BishopAttackboard(rot, sq)),
		"q":   proj.Squares(board.QueenAttackboard(rot, sq)),
		"ra":  proj.Squares(board.Attackboard(rot, sq, board.Rook)),
		"ba":  proj.Squares(board.Attackboard(rot, sq, board.Bishop)),
		"qa":  proj.Squares(board.Attackboard(rot, sq, board.Queen)),
	}
}

func attacks(args []string) {
	fs := flag.NewFlagSet("attacks", flag.ExitOnError)
	mode := fs.String("mode", "lines", "lines | joint | random | tables")
	seed := fs.Int64("seed", 1, "random seed")
	n := fs.Int("n", 1000, "random mode: number of occupancies")
	shard := fs.Int("shard", 0, "this shard")
	shards := fs.Int("shards", 1, "number of shards")
	path := fs.String("out", "", "output ndjson")
	_ = fs.Parse(args)

	w := out.Create(*path)
	r := rand.New(rand.NewSource(*seed))
	k := 0
	mine := func() bool { k++; return (k-1)%*shards == *shard }

	switch *mode {
	case "tables":
		if mine() {
			for s := 0; s < 64; s++ {
				sq := proj.FromSq(s)
				rot := board.NewRotatedBitboard(proj.SquareSet([]int{s}))
				w.Emit(out.M{"op": "attacktable", "sq": s,
					"king": proj.Squares(board.KingAttackboard(sq)), "knight": proj.Squares(board.KnightAttackboard(sq)),
					"kinga": proj.Squares(board.Attackboard(rot, sq, board.King)), "knighta": proj.Squares(board.Attackboard(rot, sq, board.Knight)),
					"wp": proj.Squares(board.PawnCaptureboard(board.White, board.BitMask(sq))),
					"bp": proj.Squares(board.PawnCaptureboard(board.Black, board.BitMask(sq)))})
			}
		}
		for i := 0; i < *n; i++ {
			if !mine() {
				continue
			}
			var pawns []int
			for s := 0; s < 64; s++ {
				if r.Intn(5) == 0 {
					pawns = append(pawns, s)
				}
			}
			bb := proj.SquareSet(pawns)
			if pawns == nil {
				pawns = []int{}
			}
			all := proj.SquareSet(subset(seq(64), r.Int()))
			w.Emit(out.M{"op": "pawns", "pawns": pawns, "all": proj.Squares(all),
				"wcap": proj.Squares(board.PawnCaptureboard(board.White, bb)), "bcap": proj.Squares(board.PawnCaptureboard(board.Black, bb)),
				"wmove": proj.Squares(board.PawnMoveboard(all, board.White, bb)), "bmove": proj.Squares(board.PawnMoveboard(all, board.Black, bb))})
		}
	case "lines":
		// every occupancy of each single line through each square (own square empty and occupied)
		for s := 0; s < 64; s++ {
			for line := 0; line < 4; line++ {
				if !mine() {
					continue
				}
				ls := lineSquares(s, line)
				var cases []out.M
				for mask := 0; mask < 1<<len(ls); mask++ {
					occ := subset(ls, mask)
					cases = append(cases, attackCase(occ, s))
					cases = append(cases, attackCase(append(occ, s), s))
				}
				w.Emit(out.M{"op": "attackrow", "sq": s, "line": line, "n": len(ls), "cases": cases})
			}
		}
	case "joint":
		// every joint occupancy of the two rook lines, and of the two bishop lines
		for s := 0; s < 64; s++ {
			for pair := 0; pair < 2; pair++ {
				a, b := lineSquares(s, 2*pair), lineSquares(s, 2*pair+1)
				for ma := 0; ma < 1<<len(a); ma++ {
					if !mine() {
						continue
					}
					var cases []out.M
					for mb := 0; mb < 1<<len(b); mb++ {
						occ := append(subset(a, ma), subset(b, mb)...)
						occ = append(occ, s)
						cases = append(cases, attackCase(occ, s))
					}
					w.Emit(out.M{"op": "attackrow", "sq": s, "line": 4 + pair, "n": len(a) + len(b), "cases": cases})
				}
			}
		}
	case "random":
		for i := 0; i < *n; i++ {
			if !mine() {
				continue
			}
			s := r.Intn(64)
			var cases []out.M
			for j := 0; j < 32; j++ {
				density := 1 + r.Intn(6)
				var occ []int
				for t := 0; t < 64; t++ {
					if r.Intn(8) < density {
						occ = append(occ, t)
					}
				}
				if occ == nil {
					occ = []int{}
				}
				cases = append(cases, attackCase(occ, s))
			}
			w.Emit(out.M{"op": "attackrow", "sq": s, "line": 9, "n": 63, "cases": cases})
		}
	}
	w.Close()
}

func seq(n int) []int {
	ret := make([]int, n)
	for i := range ret {
		ret[i] = i
	}
	return ret
}
