package main

import (
	"flag"
	"math"
	"math/rand"

	"github.com/herohde/morlock/pkg/eval"
	"verif/harness/internal/out"
	"verif/harness/internal/proj"
)

func init() {
	register("scores", "evaluate the real Score operations on all pairs of a score domain (C09)", scores)
}

// scores: one event per score a: Negate, IncrementMateDistance, MateDistance of a, and
// Less / Max / Min of a against every b of the domain; plus the derived comparisons that
// state the laws directly on the implementation (Less(-b,-a), Less(Inc a, Inc b)).
func scores(args []string) {
	fs := flag.NewFlagSet("scores", flag.ExitOnError)
	seed := fs.Int64("seed", 1, "random seed for the sampled float32 values")
	nrand := fs.Int("rand", 30, "number of random float32 values")
	shard := fs.Int("shard", 0, "this shard")
	shards := fs.Int("shards", 1, "number of shards")
	path := fs.String("out", "", "output ndjson")
	_ = fs.Parse(args)

	// dom: the scores as the constructors make them; want: what each was constructed to be
	var dom []eval.Score
	var want []proj.Score
	dom = append(dom, eval.NegInfScore, eval.InfScore)
	want = append(want, proj.Score{T: "L"}, proj.Score{T: "W"})
	for k := -127; k <= 127; k++ {
		if k != 0 {
			dom = append(dom, eval.MateInXScore(int8(k)))
			want = append(want, proj.Score{T: "M", M: k})
		}
	}
	fixed := []float32{0, float32(math.Copysign(0, -1)), 1, -1, 0.1, -0.1, math.MaxFloat32, -math.MaxFloat32,
		math.SmallestNonzeroFloat32, -math.SmallestNonzeroFloat32, 103, -103, 0.001, -0.001,
		float32(math.Inf(1)), float32(math.Inf(-1))} // an infinite evaluation is still a heuristic value
	for _, f := range fixed {
		dom = append(dom, eval.HeuristicScore(eval.Pawns(f)))
		want = append(want, proj.Score{T: "H", V: proj.PawnsKey(eval.Pawns(f))})
	}
	r := rand.New(rand.NewSource(*seed))
	for i := 0; i < *nrand; i++ {
		var f float32
		switch i % 3 {
		case 0:
			f = float32(r.NormFloat64() * 10)
		case 1:
			f = math.Float32frombits(r.Uint32())
		default:
			f = float32(r.Intn(20001)-10000) / 1000
		}
		if f != f || math.IsInf(float64(f), 0) {
			f = 0.5
		}
		dom = append(dom, eval.HeuristicScore(eval.Pawns(f)))
		want = append(want, proj.Score{T: "H", V: proj.PawnsKey(eval.Pawns(f))})
	}

	incDom := func(s eval.Score) bool { // IncrementMateDistance is defined below the int8 limit
		return !(s.Type == eval.MateInX && (s.Mate >= 127 || s.Mate <= -127))
	}

	w := out.Create(*path)
	for i, a := range dom {
		if i%*shards != *shard {
			continue
		}
		var bs, maxs, mins []proj.Score
		var less, greater, negless, incless, incdomb []int
		for _, b := range dom {
			bs = append(bs, proj.ScoreOf(b))
			less = append(less, proj.B2I(a.Less(b)))
			greater = append(greater, proj.B2I(b.Less(a)))
			maxs = append(maxs, proj.ScoreOf(eval.Max(a, b)))
			mins = append(mins, proj.ScoreOf(eval.Min(a, b)))
			negless = append(negless, proj.B2I(b.Negate().Less(a.Negate())))
			incless = append(incless, proj.B2I(eval.IncrementMateDistance(a).Less(eval.IncrementMateDistance(b))))
			incdomb = append(incdomb, proj.B2I(incDom(b)))
		}
		md := -1
		if d, ok := a.MateDistance(); ok {
			md = int(d)
		}
		w.Emit(out.M{"op": "row", "a": proj.ScoreOf(a), "want": want[i], "heur": proj.B2I(a.IsHeuristic()), "neg": proj.ScoreOf(a.Negate()),
			"inc": proj.ScoreOf(eval.IncrementMateDistance(a)), "incdom": proj.B2I(incDom(a)), "md": md,
			"dec": proj.ScoreOf(eval.DecrementMateDistance(a)), "incdec": proj.ScoreOf(eval.DecrementMateDistance(eval.IncrementMateDistance(a))),
			"bs": bs, "less": less, "greater": greater, "max": maxs, "min": mins,
			"negless": negless, "incless": incless, "incdomb": incdomb})
	}
	w.Close()
}
