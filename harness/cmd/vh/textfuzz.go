package main

import (
	"context"
	"flag"
	"fmt"
	"math/rand"
	"sort"
	"strings"
	"time"

	"github.com/herohde/morlock/pkg/board"
	"github.com/herohde/morlock/pkg/board/fen"
	"github.com/herohde/morlock/pkg/engine"
	"github.com/herohde/morlock/pkg/eval"
	"github.com/herohde/morlock/pkg/search"
	"verif/harness/internal/corpus"
	"verif/harness/internal/gen"
	"verif/harness/internal/out"
	"verif/harness/internal/proj"
)

func init() {
	register("textfuzz", "decode generated / mutated FEN, move and square strings with the real code (C19, C14)", textfuzz)
}

// decodeFen runs the real decoder, turning a panic into an outcome.
func decodeFen(s string) (ev out.M) {
	ev = out.M{"op": "fenstr", "s": s}
	defer func() {
		if r := recover(); r != nil {
			ev["outcome"] = "crash"
			ev["panic"] = fmt.Sprint(r)
			ev["val"] = out.M{}
		}
	}()
	pos, turn, np, fm, err := fen.Decode(s)
	switch {
	case err != nil:
		ev["outcome"] = "err"
		ev["val"] = out.M{}
	case pos == nil:
		ev["outcome"] = "nil" // neither an error nor a value
		ev["val"] = out.M{}
	default:
		re := fen.Encode(pos, turn, np, fm)
		// clocks as decimal strings: they may exceed what the model checker's integers hold
		val := out.M{"pos": proj.Position(pos, turn), "np": fmt.Sprint(np), "fm": fmt.Sprint(fm), "reenc": re, "moves": pseudoTexts(pos, turn)}
		// every view of the decoded position must agree with the square lookup
		consistent := true
		for c := board.ZeroColor; c < board.NumColors; c++ {
			for pc := board.ZeroPiece; pc < board.NumPieces; pc++ {
				for _, sq := range pos.PieceSquares(c, pc) {
					cc, pp, ok := pos.Square(sq)
					if !ok || cc != c || pp != pc {
						consistent = false
					}
				}
			}
		}
		if pos.All() != pos.Color(board.White)|pos.Color(board.Black) {
			consistent = false
		}
		val["consistent"] = proj.B2I(consistent)
		p2, t2, np2, fm2, err2 := fen.Decode(re)
		if err2 != nil || p2 == nil {
			val["dec2"] = out.M{"ok": false}
		} else {
			val["dec2"] = out.M{"ok": true, "pos": proj.Position(p2, t2), "np": fmt.Sprint(np2), "fm": fmt.Sprint(fm2), "moves": pseudoTexts(p2, t2)}
		}
		ev["outcome"] = "value"
		ev["val"] = val
	}
	return ev
}

// pseudoTexts: what the move generator makes of a position (it reads the position's fields directly, not
// through the accessors the projection uses): "the same position" must also move the same.
func pseudoTexts(pos *board.Position, turn board.Color) []string {
	ret := []string{}
	for _, m := range pos.PseudoLegalMoves(turn) {
		ret = append(ret, fmt.Sprintf("%v:%v", moveText(m), int(m.Type)))
	}
	sort.Strings(ret)
	return ret
}

var junk = []string{"", " ", "  ", "/", "9", "0", "x", "K", "k", "-", "w", "b", "KQkq", "e3", "e9", "i3", "e4", "d5", "a5", "h4", "c6", "f3", "-1", "+1", "1e3",
	"99999999999999999999", "\t", "\n", "\x00", "é", "٣", "８", "\U0001F600", "8/8", "pppppppp", "88", "44", "1111"}

var numEdges = []string{"2147483647", "2147483648", "4294967295", "4294967296", "9223372036854775807", "9223372036854775808",
	"18446744073709551615", "18446744073709551616", "-0", "+5", "00", "007", "1e2", "0x10", "1_000", "١٢", " 5", "5.0", "-9223372036854775808"}

func mutate(r *rand.Rand, s string) string {
	rs := []rune(s)
	for k := 0; k < 1+r.Intn(3); k++ {
		switch r.Intn(11) {
		case 10: // a clock field replaced by a numeric edge case
			parts := strings.Split(string(rs), " ")
			if len(parts) == 6 {
				parts[4+r.Intn(2)] = numEdges[r.Intn(len(numEdges))]
				rs = []rune(strings.Join(parts, " "))
			}
		case 9: // 256 extra blank squares somewhere in the placement (wraps an 8-bit counter exactly)
			i := r.Intn(len(rs) + 1)
			rs = append(rs[:i], append([]rune(strings.Repeat("8", 32)), rs[i:]...)...)
		case 0: // delete
			if len(rs) > 0 {
				i := r.Intn(len(rs))
				rs = append(rs[:i], rs[i+1:]...)
			}
		case 1: // insert junk
			i := r.Intn(len(rs) + 1)
			j := []rune(junk[r.Intn(len(junk))])
			rs = append(rs[:i], append(j, rs[i:]...)...)
		case 2: // replace a char by a near one
			if len(rs) > 0 {
				i := r.Intn(len(rs))
				rs[i] = []rune("0123456789/pnbrqkPNBRQKwb- abcdefgh")[r.Intn(35)]
			}
		case 3: // duplicate a stretch
			if len(rs) > 1 {
				i := r.Intn(len(rs) - 1)
				j := i + 1 + r.Intn(len(rs)-i-1)
				rs = append(rs[:j], append(append([]rune{}, rs[i:j]...), rs[j:]...)...)
			}
		case 4: // truncate
			if len(rs) > 0 {
				rs = rs[:r.Intn(len(rs))]
			}
		case 5: // bump a digit
			for tries := 0; tries < 10 && len(rs) > 0; tries++ {
				i := r.Intn(len(rs))
				if rs[i] >= '0' && rs[i] <= '9' {
					rs[i] = rune('0' + r.Intn(10))
					break
				}
			}
		case 6: // swap two fields
			parts := strings.Split(string(rs), " ")
			if len(parts) > 1 {
				i, j := r.Intn(len(parts)), r.Intn(len(parts))
				parts[i], parts[j] = parts[j], parts[i]
				rs = []rune(strings.Join(parts, " "))
			}
		case 7: // case flip
			if len(rs) > 0 {
				i := r.Intn(len(rs))
				rs[i] = []rune(strings.ToUpper(string(rs[i])))[0]
				if r.Intn(2) == 0 {
					rs[i] = []rune(strings.ToLower(string(rs[i])))[0]
				}
			}
		case 8: // over-long board: many blank runs (wraps 8-bit square counters)
			n := r.Intn(40)
			rs = append([]rune(strings.Repeat("8", n)), rs...)
		}
	}
	return string(rs)
}

// canonicalFen builds a FEN string character by character (not through the fen package).
func canonicalFen(r *rand.Rand) string {
	var sb strings.Builder
	for rank := 7; rank >= 0; rank-- {
		blanks := 0
		for f := 0; f < 8; f++ {
			if r.Intn(3) != 0 {
				blanks++
				continue
			}
			if blanks > 0 {
				sb.WriteString(fmt.Sprint(blanks))
				blanks = 0
			}
			sb.WriteByte("PNBRQKpnbrqk"[r.Intn(12)])
		}
		if blanks > 0 {
			sb.WriteString(fmt.Sprint(blanks))
		}
		if rank > 0 {
			sb.WriteByte('/')
		}
	}
	rights := []string{"-", "K", "Q", "k", "q", "KQ", "Kk", "Kq", "Qk", "Qq", "kq", "KQk", "KQq", "Kkq", "Qkq", "KQkq"}[r.Intn(16)]
	ep := "-"
	if r.Intn(3) == 0 {
		ep = fmt.Sprintf("%c%c", 'a'+r.Intn(8), "36"[r.Intn(2)])
	}
	return fmt.Sprintf("%v %c %v %v %v %v", sb.String(), "wb"[r.Intn(2)], rights, ep, r.Intn(151), 1+r.Intn(300))
}

func textfuzz(args []string) {
	fs := flag.NewFlagSet("textfuzz", flag.ExitOnError)
	seed := fs.Int64("seed", 1, "seed")
	n := fs.Int("n", 1000, "number of FEN strings (moves: n/10 positions)")
	path := fs.String("out", "", "output ndjson")
	_ = fs.Parse(args)
	r := rand.New(rand.NewSource(*seed))
	w := out.Create(*path)
	ctx := context.Background()

	// ---- FEN strings
	var base []string
	for _, e := range corpus.All() {
		base = append(base, e.Fen)
	}
	fixed := []string{
		strings.Repeat("8", 8) + "K" + strings.Repeat("8", 31) + "7 w - - 0 1",             // wraps an 8-bit square counter
		"K" + strings.Repeat("8", 31) + "7" + "K" + strings.Repeat("8", 7) + "7 w - - 0 1", // places two pieces on one square
		"8/8/8/8/8/8/8/8 w - - 0 1", "8/8/8/8/8/8/8/9 w - - 0 1", "8/8/8/8/8/8/8/71 w - - 0 1", "8/8/8/8/8/8/8/k w - - 0 1",
		"rnbqkbnr/pppppppp/8/8/8/8/PPPPPPPP/RNBQKBNR w KQkq - 0 1 ", " rnbqkbnr/pppppppp/8/8/8/8/PPPPPPPP/RNBQKBNR w KQkq - 0 1",
		"rnbqkbnr/pppppppp/8/8/8/8/PPPPPPPP/RNBQKBNR  w KQkq - 0 1", "rnbqkbnr/pppppppp/8/8/8/8/PPPPPPPP/RNBQKBNR w KQkq - -0 1",
		"rnbqkbnr/pppppppp/8/8/8/8/PPPPPPPP/RNBQKBNR w KQkq h1 0 1", "rnbqkbnr/pppppppp/8/8/8/8/PPPPPPPP/RNBQKBNR w KQkq - 0 1 extra",
		"rnbqkbnr/pppppppp/44/8/8/8/PPPPPPPP/RNBQKBNR w KQkq - 0 1", "rnbqkbnrr/pppppppp/8/8/8/8/PPPPPPPP/RNBQKBNR w KQkq - 0 1",
		"rnbqkbnr/pppppppp/8/8/8/8/PPPPPPPP/RNBQKBN w KQkq - 0 1", "rnbqkbnr/pppppppp/8/8/8/8/PPPPPPPP w KQkq - 0 1",
		"4k3/8/8/8/8/8/8/4K3 w - - 18446744073709551615 1", "4k3/8/8/8/8/8/8/4K3 w - - 9223372036854775808 1",
		"4k3/8/8/8/8/8/8/4K3 w - - 0 18446744073709551615", "4k3/8/8/8/8/8/8/4K3 w - - 9223372036854775807 9223372036854775807",
		"", " ", "w", "\x00", "٣٣/8/8/8/8/8/8/8 w - - 0 1", "8/8/8/8/8/8/8/８ w - - 0 1",
	}
	emit := func(s string) { w.Emit(decodeFen(s)) }
	for _, s := range fixed {
		emit(s)
	}
	for i := 0; i < *n; i++ {
		switch r.Intn(10) {
		case 0, 1, 2:
			emit(canonicalFen(r))
		case 3:
			if r.Intn(2) == 0 {
				// any square whatsoever in the en passant field: whatever is accepted must survive re-encoding
				f := strings.Fields(base[r.Intn(len(base))])
				if r.Intn(2) == 0 {
					f = strings.Fields(canonicalFen(r))
				}
				f[3] = fmt.Sprintf("%c%c", 'a'+r.Intn(8), '1'+r.Intn(8))
				emit(strings.Join(f, " "))
			} else {
				emit(base[r.Intn(len(base))])
			}
		case 4:
			emit(mutate(r, canonicalFen(r)))
		default:
			emit(mutate(r, base[r.Intn(len(base))]))
		}
	}

	// ---- move strings against a game
	s := search.AlphaBeta{Eval: search.Leaf{Eval: eval.Material{}}}
	for i := 0; i < *n/10; i++ {
		e := engine.New(ctx, "fuzz", "verif", s)
		start := base[r.Intn(len(base))]
		if err := e.Reset(ctx, start); err != nil {
			continue
		}
		// walk a few plies so that histories exist
		var line []string
		for k := r.Intn(6); k > 0; k-- {
			b := e.Board()
			legal, _ := gen.LegalOf(b)
			if len(legal) == 0 {
				break
			}
			t := moveText(legal[r.Intn(len(legal))])
			if e.Move(ctx, t) != nil {
				break
			}
			line = append(line, t)
		}
		b := e.Board()
		legal, illegal := gen.LegalOf(b)
		var cands []string
		for _, m := range legal {
			cands = append(cands, moveText(m))
		}
		for _, m := range illegal {
			cands = append(cands, moveText(m))
		}
		for k := 0; k < 12; k++ {
			cands = append(cands, fmt.Sprintf("%c%c%c%c", 'a'+r.Intn(8), '1'+r.Intn(8), 'a'+r.Intn(8), '1'+r.Intn(8)))
		}
		extra := []string{"", "e2", "e2e", "e2e4e5", "0000", "e2-e4", "e2e4 ", " e2e4", "E2E4", "e7e8", "e7e8k", "e7e8p", "e7e8Q", "e2e4q", "i2i4", "e0e4", "e2e9", "é2e4", "a7a8q", "h2h1n", "O-O", "0-0"}
		cands = append(cands, extra...)
		for k := 0; k < 6 && len(legal) > 0; k++ {
			cands = append(cands, mutate(r, moveText(legal[r.Intn(len(legal))])))
		}
		r.Shuffle(len(cands), func(a, b int) { cands[a], cands[b] = cands[b], cands[a] })
		if len(cands) > 40 {
			cands = cands[:40]
		}
		for _, c := range cands {
			// a fresh engine in the same state for every candidate (accepted moves change it)
			e2 := engine.New(ctx, "fuzz", "verif", s)
			_ = e2.Reset(ctx, start)
			for _, t := range line {
				_ = e2.Move(ctx, t)
			}
			ev := tryMove(ctx, e2, c)
			w.Emit(ev)
			if ev["outcome"] == "hang" {
				w.Close() // one is a verdict; the others would cost a minute each
				return
			}
		}
	}
	w.Close()
}

func moveText(m board.Move) string {
	promo := ""
	switch m.Promotion {
	case board.Queen:
		promo = "q"
	case board.Rook:
		promo = "r"
	case board.Bishop:
		promo = "b"
	case board.Knight:
		promo = "n"
	}
	return fmt.Sprintf("%v%v%v", m.From, m.To, promo)
}

func engineRec(e *engine.Engine) out.M {
	b := e.Board()
	last := []int{}
	if m, ok := b.LastMove(); ok {
		last = proj.Move(m)
	}
	return out.M{"fen": e.Position(), "pos": proj.Position(b.Position(), b.Turn()), "hash": proj.Hex(b.Hash()), "ply": b.Ply(),
		"np": b.NoProgress(), "fm": b.FullMoves(), "last": last, "out": int(b.Result().Outcome)}
}

func tryMove(ctx context.Context, e *engine.Engine, s string) (ev out.M) {
	rec0 := engineRec(e)
	ev = out.M{"op": "movestr", "s": s, "rec0": rec0}
	defer func() {
		if r := recover(); r != nil {
			ev["outcome"] = "crash"
			ev["panic"] = fmt.Sprint(r)
			ev["rec1"] = rec0
		}
	}()
	// a call that has not returned after a minute never will (no search is running): recorded as such, and
	// the engine is not touched again (it may be holding its lock)
	type resT struct {
		err error
		pan interface{}
	}
	done := make(chan resT, 1)
	go func() {
		defer func() {
			if r := recover(); r != nil {
				done <- resT{pan: r}
			}
		}()
		done <- resT{err: e.Move(ctx, s)}
	}()
	var res resT
	select {
	case res = <-done:
	case <-time.After(60 * time.Second):
		ev["outcome"] = "hang"
		ev["rec1"] = rec0
		return ev
	}
	if res.pan != nil {
		panic(res.pan)
	}
	if res.err != nil {
		ev["outcome"] = "rejected"
	} else {
		ev["outcome"] = "accepted"
	}
	ev["rec1"] = engineRec(e)
	return ev
}
