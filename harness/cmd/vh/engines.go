package main

import (
	"context"
	"flag"
	"fmt"
	"math"
	"math/rand"
	"os"
	"strings"

	"github.com/herohde/morlock/cmd/bernstein/bernstein"
	"github.com/herohde/morlock/cmd/sargon/sargon"
	"github.com/herohde/morlock/cmd/turochamp/turochamp"
	"github.com/herohde/morlock/pkg/board"
	"github.com/herohde/morlock/pkg/board/fen"
	"github.com/herohde/morlock/pkg/engine"
	"github.com/herohde/morlock/pkg/eval"
	"verif/harness/internal/corpus"
	"verif/harness/internal/gen"
	"verif/harness/internal/out"
	"verif/harness/internal/proj"
	"verif/harness/internal/ucih"
)

func init() {
	register("engines", "evaluations, move filters and books of the historical engines on mirror pairs of games (C20)", engines)
}

// mirrorFen flips ranks and swaps colours of a FEN string (string level, no board code).
func mirrorFen(f string) string {
	parts := strings.Split(f, " ")
	ranks := strings.Split(parts[0], "/")
	for i, j := 0, len(ranks)-1; i < j; i, j = i+1, j-1 {
		ranks[i], ranks[j] = ranks[j], ranks[i]
	}
	swap := func(s string) string {
		var sb strings.Builder
		for _, r := range s {
			switch {
			case r >= 'a' && r <= 'z':
				sb.WriteRune(r - 'a' + 'A')
			case r >= 'A' && r <= 'Z':
				sb.WriteRune(r - 'A' + 'a')
			default:
				sb.WriteRune(r)
			}
		}
		return sb.String()
	}
	parts[0] = swap(strings.Join(ranks, "/"))
	if parts[1] == "w" {
		parts[1] = "b"
	} else {
		parts[1] = "w"
	}
	if parts[2] != "-" {
		c := swap(parts[2])
		// canonical order KQkq
		o := ""
		for _, ch := range "KQkq" {
			if strings.ContainsRune(c, ch) {
				o += string(ch)
			}
		}
		parts[2] = o
	}
	if parts[3] != "-" {
		parts[3] = string(parts[3][0]) + string('1'+('8'-parts[3][1]))
	}
	return strings.Join(parts, " ")
}

func mirrorSq(s board.Square) board.Square {
	return board.NewSquare(s.File(), board.Rank(7-int(s.Rank())))
}

func findMirror(b *board.Board, m board.Move) (board.Move, bool) {
	for _, x := range b.Position().PseudoLegalMoves(b.Turn()) {
		if x.From == mirrorSq(m.From) && x.To == mirrorSq(m.To) && x.Promotion == m.Promotion {
			return x, true
		}
	}
	return board.Move{}, false
}

func fkey(p eval.Pawns) (int, int) {
	f := float64(p)
	if math.IsNaN(f) || math.IsInf(f, 0) {
		return 0, 0
	}
	return proj.PawnsKey(p), 1
}

// engineFacts evaluates and filters one position with every historical engine.  A panic in any
// of them is recorded (the evaluations and filters are to be total): the facts then carry the
// name of the call that panicked and nothing else but the position.
func engineFacts(ctx context.Context, b *board.Board) (ret out.M) {
	stage := "setup"
	b = b.Fork() // a panicking filter may leave a move pushed
	pos0 := proj.Position(b.Position(), b.Turn())
	defer func() {
		if r := recover(); r != nil {
			if os.Getenv("VERIF_DEBUG") != "" {
				fmt.Fprintln(os.Stderr, "PANIC in engineFacts on", b, stage, r)
			}
			ret = out.M{"pos": pos0, "panic": stage, "what": fmt.Sprint(r)}
		}
	}()
	ev := out.M{}
	put := func(name string, e eval.Evaluator) {
		stage = "eval:" + name
		k, fin := fkey(e.Evaluate(ctx, b))
		ev[name] = []int{k, fin}
	}
	put("material", eval.Material{})
	put("turochamp", turochamp.Eval{})
	put("turomat", turochamp.Material{})
	put("bernstein1", bernstein.Eval{Factor: 1})
	put("bernstein8", bernstein.Eval{Factor: 8})
	put("bernstein100", bernstein.Eval{Factor: 100})
	pts := &sargon.Points{}
	stage = "eval:sargon"
	pts.Reset(ctx, b)
	put("sargon", pts)

	legal, _ := gen.LegalOf(b)
	plaus := [][]int{}
	stage = "filter:plausible"
	for _, m := range bernstein.FindPlausibleMoves(b) {
		plaus = append(plaus, proj.Move(m))
	}
	sel := map[string][][]int{}
	for _, lim := range []int{0, 1, 7} {
		stage = "filter:plausible"
		_, pred := bernstein.PlausibleMoveTable{Limit: lim}.Explore(ctx, b)
		stage = "filter:skipunder"
		_, skip := sargon.SkipUnderPromotions(ctx, b)
		stage = "filter:considerable"
		_, cons := turochamp.ConsiderableMovesOnly(ctx, b)
		var a, s, c [][]int
		for _, m := range legal {
			b.PushMove(m) // predicates are evaluated after the move, as the searches do
			stage = "filter:plausible"
			if pred(m) {
				a = append(a, proj.Move(m))
			}
			if lim == 0 {
				stage = "filter:skipunder"
				if skip(m) {
					s = append(s, proj.Move(m))
				}
				stage = "filter:considerable"
				if cons(m) {
					c = append(c, proj.Move(m))
				}
			}
			b.PopMove()
		}
		key := map[int]string{0: "plausible0", 1: "plausible1", 7: "plausible7"}[lim]
		sel[key] = nz(a)
		if lim == 0 {
			sel["skipunder"] = nz(s)
			sel["considerable"] = nz(c)
		}
	}
	return out.M{"pos": proj.Position(b.Position(), b.Turn()), "panic": "", "eval": ev, "plausible": plaus, "sel": sel, "nlegal": len(legal)}
}

func nz(a [][]int) [][]int {
	if a == nil {
		return [][]int{}
	}
	return a
}

// randomTight: a king in (or next to) a corner, hemmed in by the enemy king, plus a few pawns and minor pieces.
func randomTight(r *rand.Rand) string {
	for {
		var pieces []board.Placement
		used := map[board.Square]bool{}
		put := func(c board.Color, p board.Piece, sq board.Square) bool {
			if used[sq] || (p == board.Pawn && (sq.Rank() == board.Rank1 || sq.Rank() == board.Rank8)) {
				return false
			}
			used[sq] = true
			pieces = append(pieces, board.Placement{Square: sq, Color: c, Piece: p})
			return true
		}
		side := board.Color(r.Intn(2))
		corner := []board.Square{board.A1, board.H1, board.A8, board.H8}[r.Intn(4)]
		put(side, board.King, corner)
		// the enemy king two files / ranks away
		cf, cr := int(corner.File()), int(corner.Rank())
		df, dr := 2, 1
		if r.Intn(2) == 0 {
			df, dr = 1, 2
		}
		ef, er := cf+df, cr+dr
		if cf > 3 {
			ef = cf - df
		}
		if cr > 3 {
			er = cr - dr
		}
		if ef < 0 || ef > 7 || er < 0 || er > 7 || !put(side.Opponent(), board.King, board.NewSquare(board.File(ef), board.Rank(er))) {
			continue
		}
		kinds := []board.Piece{board.Pawn, board.Pawn, board.Pawn, board.Bishop, board.Knight}
		for k := 0; k < 2+r.Intn(4); k++ {
			put(board.Color(r.Intn(2)), kinds[r.Intn(len(kinds))], board.Square(r.Intn(64)))
		}
		pos, err := board.NewPosition(pieces, board.NoCastlingRights, board.ZeroSquare)
		if err != nil || pos == nil || pos.IsChecked(side.Opponent()) {
			continue
		}
		return fen.Encode(pos, side, r.Intn(10), 1+r.Intn(40))
	}
}

func engines(args []string) {
	fs := flag.NewFlagSet("engines", flag.ExitOnError)
	seed := fs.Int64("seed", 1, "seed")
	n := fs.Int("n", 20, "games")
	plies := fs.Int("plies", 30, "plies per game")
	path := fs.String("out", "", "output ndjson")
	_ = fs.Parse(args)
	r := rand.New(rand.NewSource(*seed))
	w := out.Create(*path)
	ctx := context.Background()
	g := gen.New(*seed, nil, gen.Flags{})
	zt := board.NewZobristTable(*seed)
	all := corpus.All()

	mk := func(f string) *board.Board {
		pos, turn, np, fm, err := fen.Decode(f)
		if err != nil || pos == nil {
			out.Fatalf("bad fen %q", f)
		}
		return board.NewBoard(zt, pos, turn, np, fm)
	}

	// books: probe every position within two plies of the start
	for _, bk := range []struct {
		name string
		book engine.Book
	}{{"sargon", sargon.NewBook()}, {"bernstein", bernstein.NewBook()}} {
		var probe func(b *board.Board, d int)
		probe = func(b *board.Board, d int) {
			f := fen.Encode(b.Position(), b.Turn(), b.NoProgress(), b.FullMoves())
			moves, err := bk.book.Find(ctx, f)
			if err == nil && len(moves) > 0 {
				var ms [][]int
				for _, m := range moves {
					ms = append(ms, proj.Move(m))
				}
				w.Emit(out.M{"op": "book", "book": bk.name, "key": f, "pos": proj.Position(b.Position(), b.Turn()), "moves": ms})
			}
			if d == 0 {
				return
			}
			legal, _ := gen.LegalOf(b)
			for _, m := range legal {
				b.PushMove(m)
				probe(b, d-1)
				b.PopMove()
			}
		}
		probe(mk(fen.Initial), 2)
	}

	// books built from lines (engine.NewBook): lines that end in an en passant capture, probed at every
	// position that any reordering of a line prefix reaches -- same placement, side and castling rights,
	// but the en passant right may be gone; and at the played positions with other clocks
	{
		lines := ucih.EpLines()
		bk, err := engine.NewBook(lines)
		if err != nil {
			out.Fatalf("line book: %v", err)
		}
		play := func(ms []string) *board.Board {
			b := mk(fen.Initial)
			for _, t := range ms {
				ok := false
				for _, m := range b.Position().PseudoLegalMoves(b.Turn()) {
					if moveText(m) == t && b.PushMove(m) {
						ok = true
						break
					}
				}
				if !ok {
					return nil
				}
			}
			return b
		}
		seen := map[string]bool{}
		probe := func(b *board.Board) {
			for _, f := range []string{
				fen.Encode(b.Position(), b.Turn(), b.NoProgress(), b.FullMoves()),
				fen.Encode(b.Position(), b.Turn(), 7, 31),
			} {
				if seen[f] {
					continue
				}
				seen[f] = true
				moves, err := bk.Find(ctx, f)
				if err == nil && len(moves) > 0 {
					var ms [][]int
					for _, m := range moves {
						ms = append(ms, proj.Move(m))
					}
					w.Emit(out.M{"op": "book", "book": "lines", "key": f, "pos": proj.Position(b.Position(), b.Turn()), "moves": ms})
				}
			}
		}
		for _, line := range lines {
			for k := 0; k < len(line); k++ {
				prefix := append([]string{}, line[:k]...)
				if b := play(prefix); b != nil {
					probe(b)
				}
				for i := 0; i < k; i++ {
					for j := i + 2; j < k; j += 2 {
						alt := append([]string{}, prefix...)
						alt[i], alt[j] = alt[j], alt[i]
						if b := play(alt); b != nil {
							probe(b)
						}
					}
				}
			}
		}
	}

	// tight positions: the side to move has one or two legal moves and its king none -- where a
	// move filter that drops "bad" moves starves the search
	tight := 0
	for tries := 0; tries < 400000 && tight < *n*3; tries++ {
		f := randomTight(r)
		a := mk(f)
		legal, _ := gen.LegalOf(a)
		if len(legal) == 0 || len(legal) > 2 {
			continue
		}
		kingMoves := false
		for _, m := range legal {
			if m.Piece == board.King {
				kingMoves = true
			}
		}
		if kingMoves {
			continue
		}
		tight++
		if os.Getenv("VERIF_DEBUG") != "" {
			fmt.Fprintln(os.Stderr, "tight", f, "mirror", mirrorFen(f))
		}
		w.Emit(out.M{"op": "engines", "a": engineFacts(ctx, a), "b": engineFacts(ctx, mk(mirrorFen(f))), "ply": 0, "start": f})
	}

	for i := 0; i < *n; i++ {
		f := all[r.Intn(len(all))].Fen
		if i%3 == 0 {
			f = fen.Initial
		}
		if i%3 == 1 {
			f = randomEndgame(r)
		}
		a, bm := mk(f), mk(mirrorFen(f))
		for k := 0; k < *plies; k++ {
			w.Emit(out.M{"op": "engines", "a": engineFacts(ctx, a), "b": engineFacts(ctx, bm), "ply": k, "start": f})
			legal, _ := gen.LegalOf(a)
			if len(legal) == 0 || a.Result().Outcome == board.Draw {
				break
			}
			m := g.Pick(legal)
			mm, ok := findMirror(bm, m)
			if !ok {
				out.Fatalf("no mirror move for %v in %v", m, bm)
			}
			if !a.PushMove(m) || !bm.PushMove(mm) {
				w.Emit(out.M{"op": "mirror-diverged", "move": proj.Move(m)})
				break
			}
		}
	}
	w.Close()
}
