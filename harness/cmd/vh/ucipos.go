package main

import (
	"context"
	"flag"
	"fmt"
	"math/rand"
	"os"
	"strings"
	"sync/atomic"
	"time"

	"github.com/herohde/morlock/pkg/board"
	"github.com/herohde/morlock/pkg/board/fen"
	"github.com/herohde/morlock/pkg/engine"
	"github.com/herohde/morlock/pkg/eval"
	"github.com/herohde/morlock/pkg/search"
	"github.com/herohde/morlock/pkg/search/searchctl"
	"github.com/seekerror/stdlib/pkg/lang"
	"verif/harness/internal/corpus"
	"verif/harness/internal/gen"
	"verif/harness/internal/out"
	"verif/harness/internal/proj"
	"verif/harness/internal/ucih"
)

func init() {
	register("ucipos", "sequences of position / ucinewgame commands on the real UCI driver (C10, C14)", ucipos)
}

type gameT struct {
	start string   // "startpos" or "fen <6 fields>"
	moves []string // coordinate texts
}

func (g gameT) line() string {
	s := "position " + g.start
	if len(g.moves) > 0 {
		s += " moves " + strings.Join(g.moves, " ")
	}
	return s
}

func (g gameT) fenOf() string {
	if g.start == "startpos" {
		return fen.Initial
	}
	return strings.TrimPrefix(g.start, "fen ")
}

// shadow builds a board for the game with the real board code; used only to pick legal
// continuations (the oracle for what the engine must hold is the TLA+ specification).
func shadow(g gameT) *board.Board {
	pos, turn, np, fm, err := fen.Decode(g.fenOf())
	if err != nil || pos == nil {
		out.Fatalf("bad fen %q", g.fenOf())
	}
	b := board.NewBoard(board.NewZobristTable(0), pos, turn, np, fm)
	for _, t := range g.moves {
		ok := false
		for _, m := range b.Position().PseudoLegalMoves(b.Turn()) {
			if moveText(m) == t {
				ok = b.PushMove(m)
				break
			}
		}
		if !ok {
			out.Fatalf("shadow: illegal move %v in %v", t, g.line())
		}
	}
	return b
}

// caseVariant flips the colour of one knight, bishop or queen (or rook, if nobody may castle) of a FEN
// without an en passant square; "" if there is none.
func caseVariant(r *rand.Rand, f string) string {
	parts := strings.Split(f, " ")
	if len(parts) != 6 || parts[3] != "-" {
		return ""
	}
	kinds := "NBQnbq"
	if parts[2] == "-" {
		kinds += "Rr"
	}
	var idx []int
	for i, c := range parts[0] {
		if strings.ContainsRune(kinds, c) {
			idx = append(idx, i)
		}
	}
	if len(idx) == 0 {
		return ""
	}
	// deterministic in the FEN, so that the two calls of one case agree
	i := idx[len(f)%len(idx)]
	b := []byte(parts[0])
	if b[i] >= 'a' {
		b[i] -= 32
	} else {
		b[i] += 32
	}
	parts[0] = string(b)
	v := strings.Join(parts, " ")
	// only well-formed variants: the side that is not to move must not be in check
	pos, turn, _, _, err := fen.Decode(v)
	if err != nil || pos == nil || pos.IsChecked(turn.Opponent()) {
		return ""
	}
	return v
}

func extend(r *rand.Rand, g gameT, k int) gameT {
	b := shadow(g)
	ret := gameT{start: g.start, moves: append([]string{}, g.moves...)}
	gg := gen.New(r.Int63(), nil, gen.Flags{})
	for i := 0; i < k; i++ {
		legal, _ := gen.LegalOf(b)
		if len(legal) == 0 {
			break
		}
		var m board.Move
		if rev, ok := gen.Reverse(b, legal); ok && r.Intn(2) == 0 {
			m = rev // shuffles: repetitions matter for the history
		} else {
			m = gg.Pick(legal)
		}
		b.PushMove(m)
		ret.moves = append(ret.moves, moveText(m))
	}
	return ret
}

func engineState(e *engine.Engine) out.M {
	// the boards an engine hands out are forks: what one holder does to his is invisible on the next one
	if b0 := e.Board(); b0 != nil {
		for _, m := range b0.Position().PseudoLegalMoves(b0.Turn()) {
			if b0.PushMove(m) {
				break
			}
		}
	}
	b := e.Board()
	last := []int{}
	if m, ok := b.LastMove(); ok {
		last = proj.Move(m)
	}
	o := int(b.Result().Outcome)
	if o == 0 {
		o = 1
	}
	return out.M{"fen": e.Position(), "fenb": fen.Encode(b.Position(), b.Turn(), b.NoProgress(), b.FullMoves()), "pos": proj.Position(b.Position(), b.Turn()), "ply": b.Ply(), "np": b.NoProgress(), "fm": b.FullMoves(),
		"last": last, "out": o, "castled": []int{proj.B2I(b.HasCastled(board.White)), proj.B2I(b.HasCastled(board.Black))}}
}

// readout pops a fork of the engine's board to its root and lists the line (destructive to the
// shared history: the last thing done to an engine).
func readout(e *engine.Engine) []out.M {
	b := e.Board()
	var rev []out.M
	for {
		ent := out.M{"pos": proj.Position(b.Position(), b.Turn()), "np": b.NoProgress()}
		m, ok := b.PopMove()
		if !ok {
			ent["mv"] = []int{}
			rev = append(rev, ent)
			break
		}
		ent["mv"] = proj.Move(m)
		rev = append(rev, ent)
	}
	for i, j := 0, len(rev)-1; i < j; i, j = i+1, j-1 {
		rev[i], rev[j] = rev[j], rev[i]
	}
	return rev
}

func ucipos(args []string) {
	fs := flag.NewFlagSet("ucipos", flag.ExitOnError)
	seed := fs.Int64("seed", 1, "seed")
	n := fs.Int("n", 50, "sessions")
	maxCmds := fs.Int("cmds", 5, "maximum commands per session")
	path := fs.String("out", "", "output ndjson")
	api := fs.Bool("api", false, "drive Engine.Reset/Move/TakeBack directly instead of the UCI driver")
	_ = fs.Parse(args)
	r := rand.New(rand.NewSource(*seed))
	w := out.Create(*path)
	ctx := context.Background()
	if *api {
		engineAPI(ctx, r, w, *n, *maxCmds)
		w.Close()
		return
	}
	all := corpus.All()
	tmo := 60 * time.Second // generous: a loaded machine must not look like a hung driver

	randomStart := func() string {
		switch r.Intn(3) {
		case 0:
			return "startpos"
		case 1:
			return "fen " + all[r.Intn(len(all))].Fen
		default:
			// a FEN with non-trivial clocks
			parts := strings.Split(all[r.Intn(len(all))].Fen, " ")
			parts[4] = fmt.Sprint(r.Intn(60))
			parts[5] = fmt.Sprint(1 + r.Intn(80))
			return "fen " + strings.Join(parts, " ")
		}
	}

	for i := 0; i < *n; i++ {
		spec := ucih.EngineSpec{Name: []string{"morlock", "turochamp", "sargon", "bernstein"}[r.Intn(4)], Hash: uint(r.Intn(2)), Seed: r.Int63()}
		e, opts := ucih.Build(ctx, spec)
		// one session in four gets an engine that has been used before the driver is attached (a host may
		// keep its engine and attach a new driver per session): it holds some other game
		preused := r.Intn(4) == 0
		if preused {
			pg := extend(r, gameT{start: "fen " + all[r.Intn(len(all))].Fen}, 1+r.Intn(4))
			_ = e.Reset(ctx, pg.fenOf())
			for _, t := range pg.moves {
				_ = e.Move(ctx, t)
			}
		}
		s := ucih.Start(ctx, e, opts...)
		w.Emit(out.M{"op": "session", "engine": spec.Name, "hash": spec.Hash, "preused": proj.B2I(preused)})
		var cur *gameT
		k := 1 + r.Intn(*maxCmds)
		for c := 0; c < k; c++ {
			shape := ""
			var g gameT
			line := ""
			x := r.Intn(100)
			switch {
			case cur == nil && preused:
				// the first thing the driver hears is a game from the start position
				shape = "new"
				g = extend(r, gameT{start: "startpos"}, r.Intn(5))
			case cur == nil || x < 18:
				shape = "new"
				g = extend(r, gameT{start: randomStart()}, r.Intn(8))
			case x < 27:
				// the FEN the current game has reached, as a new game (optionally played on): everything but
				// the six FEN fields must be forgotten
				shape = "fen-of-current"
				b := shadow(*cur)
				g = extend(r, gameT{start: "fen " + fen.Encode(b.Position(), b.Turn(), b.NoProgress(), b.FullMoves())}, r.Intn(3)*r.Intn(4))
			case x < 32 && caseVariant(r, cur.fenOf()) != "":
				// the same FEN with the colour of one officer flipped (letter case): a different game that
				// differs from the previous command line in case only
				shape = "case-variant"
				g = gameT{start: "fen " + caseVariant(r, cur.fenOf())}
			case x < 45:
				shape = "extend"
				g = extend(r, *cur, 1+r.Intn(4))
			case len(cur.moves) > 1 && shadow(*cur).Result().Outcome == board.Draw && r.Intn(2) == 0:
				// the game is drawn (repetition, fifty moves, material): take back one or two moves - the
				// position reached may still be a drawn one, exactly as if it had been set up from scratch
				shape = "shorten-from-drawn"
				g = gameT{start: cur.start, moves: append([]string{}, cur.moves[:len(cur.moves)-1-r.Intn(2)]...)}
			case x < 58:
				shape = "repeat"
				g = *cur
			case x < 68 && len(cur.moves) > 0:
				shape = "shorten"
				g = gameT{start: cur.start, moves: append([]string{}, cur.moves[:r.Intn(len(cur.moves))]...)}
			case x < 76:
				shape = "same-start-other-line"
				g = extend(r, gameT{start: cur.start}, 1+r.Intn(6))
			case x < 84 && cur.start != "startpos" && len(cur.moves) == 0:
				// textual extension of the previous command: same FEN, full-move number with one more digit
				shape = "fen-number-extension"
				g = extend(r, gameT{start: cur.start + fmt.Sprint(r.Intn(10))}, r.Intn(3))
			case x < 89:
				shape = "ucinewgame"
				line = "ucinewgame"
			case x < 93:
				// an option changes the options and nothing else
				name := []string{"Hash", "Depth", "Noise"}[r.Intn(3)]
				val := r.Intn(3)
				line = fmt.Sprintf("setoption name %v value %v", name, val)
				sent := s.Send(line, tmo)
				_, ready := s.Barrier(tmo)
				ev := out.M{"op": "optcmd", "line": line, "name": name, "n": val, "sent": proj.B2I(sent), "ready": proj.B2I(ready), "dead": proj.B2I(s.Dead),
					"opts": out.M{}, "state": out.M{}}
				if ready {
					o := e.Options()
					ev["opts"] = out.M{"depth": o.Depth, "hash": o.Hash, "noise": o.Noise}
					ev["state"] = engineState(e)
				}
				w.Emit(ev)
				if !ready {
					c = k
				}
				continue
			default:
				shape = "new"
				g = extend(r, gameT{start: randomStart()}, r.Intn(8))
			}
			if line == "" {
				line = g.line()
				if shape == "repeat" && r.Intn(3) == 0 {
					line += " " // trailing blank
				}
				if shape != "repeat" && len(g.moves) == 0 && r.Intn(3) == 0 {
					line += " moves" // the word with no move after it; a later command may extend it
				}
			}
			sent := s.Send(line, tmo)
			_, ready := s.Barrier(tmo)
			ev := out.M{"op": "poscmd", "line": line, "shape": shape, "sent": proj.B2I(sent), "ready": proj.B2I(ready), "dead": proj.B2I(s.Dead)}
			if ready {
				ev["state"] = engineState(e)
			} else {
				ev["state"] = out.M{}
			}
			w.Emit(ev)
			if shape != "ucinewgame" {
				gg := g
				cur = &gg
			}
			if !ready {
				break
			}
		}
		if !s.Dead {
			w.Emit(out.M{"op": "readout", "hist": readout(e)})
			s.Quit(tmo)
		}
	}
	w.Close()
}

// engineAPI drives the engine the way the console driver and a library user do: Reset, Move and
// TakeBack called directly, with Position() and the board read after every call (also after the
// calls that fail).
// within runs one engine call; a call that has not returned after 60 s never will (every search the
// harness starts is instant or honours its context): the run ends with an "api-stuck" event.
func within(w *out.Writer, kind, arg string, call func()) {
	done := make(chan struct{})
	go func() { call(); close(done) }()
	select {
	case <-done:
	case <-time.After(60 * time.Second):
		w.Emit(out.M{"op": "api-stuck", "kind": kind, "arg": arg})
		w.Close()
		os.Exit(0)
	}
}

func engineAPI(ctx context.Context, r *rand.Rand, w *out.Writer, n, maxOps int) {
	all := corpus.All()
	gg := gen.New(r.Int63(), nil, gen.Flags{})
	for i := 0; i < n; i++ {
		spec := ucih.EngineSpec{Name: []string{"morlock", "turochamp", "sargon", "bernstein"}[r.Intn(4)], Hash: uint(r.Intn(2)), Seed: r.Int63()}
		e, _ := ucih.Build(ctx, spec)
		// every other session: an engine around a stub search (instant, never a mate) with a default depth,
		// and analyses mixed in between the other calls
		analyses := i%2 == 1
		def := uint(0)
		var stub *apiStub
		var made *int64
		if analyses {
			spec.Name = "stub"
			def = uint(r.Intn(4)) // 0 = no default limit
			stub = &apiStub{}
			made = new(int64)
			factory := func(ctx context.Context, size uint64) search.TranspositionTable {
				atomic.AddInt64(made, 1)
				return search.NewTranspositionTable(ctx, size)
			}
			e = engine.New(ctx, "stub", "verif", stub, engine.WithTable(factory), engine.WithOptions(engine.Options{Depth: def, Hash: spec.Hash}), engine.WithZobrist(spec.Seed))
		}
		w.Emit(out.M{"op": "session", "engine": spec.Name, "hash": spec.Hash})
		fill := func(ev out.M) out.M {
			o := e.Options()
			ev["opts"] = out.M{"depth": o.Depth, "hash": o.Hash}
			ev["tables"] = -1
			if made != nil {
				ev["tables"] = atomic.LoadInt64(made)
			}
			ev["state"] = engineState(e)
			return ev
		}
		emit := func(kind, arg string, bad bool, err error) {
			w.Emit(fill(out.M{"op": "api", "kind": kind, "arg": arg, "bad": proj.B2I(bad), "err": proj.B2I(err != nil)}))
		}
		emit("start", "", false, nil)
		k := 4 + r.Intn(4*maxOps)
		for c := 0; c < k; c++ {
			b := e.Board()
			legal, illegal := gen.LegalOf(b)
			if analyses && r.Intn(3) == 0 {
				if x := r.Intn(8); x == 0 {
					n := uint(r.Intn(4))
					e.SetDepth(n)
					w.Emit(fill(out.M{"op": "api", "kind": "setdepth", "arg": "", "bad": 0, "err": 0, "n": n}))
				} else if x == 1 {
					n := uint(r.Intn(3))
					e.SetHash(n)
					w.Emit(fill(out.M{"op": "api", "kind": "sethash", "arg": "", "bad": 0, "err": 0, "n": n}))
				} else if x < 6 {
					var ev out.M
					within(w, "analyze", "", func() { ev = apiAnalyze(ctx, r, e, stub) })
					w.Emit(fill(ev))
				} else {
					var pv search.PV
					var err error
					within(w, "halt", "", func() { pv, err = e.Halt(ctx) })
					first := []int{}
					if len(pv.Moves) > 0 {
						first = proj.Move(pv.Moves[0])
					}
					w.Emit(fill(out.M{"op": "api", "kind": "halt", "arg": "", "bad": 0, "err": proj.B2I(err != nil), "first": first}))
				}
				continue
			}
			switch x := r.Intn(100); {
			case x < 10:
				f := all[r.Intn(len(all))].Fen
				if r.Intn(2) == 0 {
					parts := strings.Split(f, " ")
					parts[4] = fmt.Sprint(r.Intn(60))
					parts[5] = fmt.Sprint(1 + r.Intn(80))
					f = strings.Join(parts, " ")
				}
				var err error
				within(w, "reset", f, func() { err = e.Reset(ctx, f) })
				emit("reset", f, false, err)
			case x < 13:
				f := []string{"", "8/8/8/8 w - - 0 1", "not a fen", fen.Initial + " 7"}[r.Intn(4)]
				var err error
				within(w, "reset", f, func() { err = e.Reset(ctx, f) })
				emit("reset", f, true, err)
			case x < 45:
				// take back (also at the root, where nothing must change), often several in a row
				for j := r.Intn(3); j >= 0; j-- {
					var err error
					within(w, "takeback", "", func() { err = e.TakeBack(ctx) })
					emit("takeback", "", false, err)
				}
			case x < 52 && len(illegal) > 0:
				// pseudo-legal but not legal
				m := illegal[r.Intn(len(illegal))]
				var err error
				within(w, "move", moveText(m), func() { err = e.Move(ctx, moveText(m)) })
				emit("move", moveText(m), false, err)
			case x < 56:
				t := []string{"e2e5", "a1a1", "h7h8k", "zz", "e7e8q"}[r.Intn(5)]
				_, perr := board.ParseMove(t)
				var err error
				within(w, "move", t, func() { err = e.Move(ctx, t) })
				emit("move", t, perr != nil, err)
			default:
				if len(legal) == 0 {
					var err error
					within(w, "takeback", "", func() { err = e.TakeBack(ctx) })
					emit("takeback", "", false, err)
					continue
				}
				var m board.Move
				if rev, ok := gen.Reverse(b, legal); ok && r.Intn(3) == 0 {
					m = rev
				} else {
					m = gg.Pick(legal)
				}
				var err error
				within(w, "move", moveText(m), func() { err = e.Move(ctx, moveText(m)) })
				emit("move", moveText(m), false, err)
			}
		}
		within(w, "halt", "", func() { _, _ = e.Halt(ctx) }) // leave no search running behind
	}
}

// apiStub is an instant search: some legal move, an even score, never a mate.
type apiStub struct {
	ttseen int64 // size in MB of the table the latest depth-1 search was given
}

func (s *apiStub) Search(ctx context.Context, sctx *search.Context, b *board.Board, depth int) (uint64, eval.Score, []board.Move, error) {
	if depth == 1 {
		atomic.StoreInt64(&s.ttseen, int64(sctx.TT.Size()>>20))
	}
	select {
	case <-ctx.Done():
		return 0, eval.Score{}, nil, search.ErrHalted
	case <-time.After(50 * time.Microsecond):
	}
	var pv []board.Move
	if legal, _ := gen.LegalOf(b); len(legal) > 0 {
		pv = legal[:1]
	}
	return 1, eval.HeuristicScore(0), pv, nil
}

// apiAnalyze calls Engine.Analyze with an explicit limit (0 = explicitly none) or without one, and
// watches the stream: the depth at which it ends by itself, or that it was still open well past
// every limit in play (then the search is left running: a later call has to halt it).
func apiAnalyze(ctx context.Context, r *rand.Rand, e *engine.Engine, stub *apiStub) out.M {
	limit := -1
	opt := searchctl.Options{}
	if r.Intn(2) == 0 {
		limit = r.Intn(4)
		opt.DepthLimit = lang.Some(uint(limit))
	}
	if r.Intn(3) == 0 {
		// a clock with plenty of time changes nothing about the depth the analysis runs to
		opt.TimeControl = lang.Some(searchctl.TimeControl{White: time.Hour, Black: time.Hour, Moves: r.Intn(2) * 30})
	}
	ch, err := e.Analyze(ctx, opt)
	ev := out.M{"op": "api", "kind": "analyze", "arg": "", "bad": 0, "err": proj.B2I(err != nil), "limit": limit, "closed": -1, "seen": 0, "ttseen": -1}
	if err == nil {
		last, open := 0, true
		deadline := time.After(30 * time.Second)
		for open && last < 12 {
			select {
			case pv, ok := <-ch:
				if !ok {
					open = false
					ev["closed"] = last
				} else {
					last = pv.Depth
				}
			case <-deadline:
				ev["closed"] = -2 // neither ended nor deepening: the machine, not the engine
				open = false
			}
		}
		ev["seen"] = last
		if last > 0 {
			ev["ttseen"] = atomic.LoadInt64(&stub.ttseen)
		}
		if open {
			// keep draining so that nothing waits for this reader
			go func() {
				for range ch {
				}
			}()
		}
	}
	return ev
}
