package main

import (
	"context"
	"flag"
	"fmt"
	"math/rand"

	"github.com/herohde/morlock/pkg/board"
	"github.com/herohde/morlock/pkg/board/fen"
	"github.com/herohde/morlock/pkg/search"
	"verif/harness/internal/sdump"
)

func init() {
	register("abdiff", "tool: list small endgames where AlphaBeta and Minimax disagree (seed finder, no verdicts)", abdiff)
}

func abdiff(args []string) {
	fs := flag.NewFlagSet("abdiff", flag.ExitOnError)
	seed := fs.Int64("seed", 1, "seed")
	n := fs.Int("n", 1000, "positions")
	depth := fs.Int("depth", 5, "depth")
	_ = fs.Parse(args)
	r := rand.New(rand.NewSource(*seed))
	ctx := context.Background()
	ab := sdump.NewConfig("hash")
	mm := sdump.NewConfig("minimax")
	zt := board.NewZobristTable(0)
	for i := 0; i < *n; i++ {
		f := randomEndgame(r)
		pos, turn, np, fm, _ := fen.Decode(f)
		b := board.NewBoard(zt, pos, turn, np, fm)
		n1, s1, _, _ := ab.Search.Search(ctx, &search.Context{TT: search.NoTranspositionTable{}}, b.Fork(), *depth)
		n2, s2, _, _ := mm.Search.Search(ctx, &search.Context{TT: search.NoTranspositionTable{}}, b.Fork(), *depth)
		if s1 != s2 {
			fmt.Printf("%v | ab=%v (%v nodes) mm=%v (%v nodes)\n", f, s1, n1, s2, n2)
		}
	}
}
