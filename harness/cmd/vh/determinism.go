package main

import (
	"context"
	"flag"
	"fmt"
	"github.com/herohde/morlock/pkg/board/fen"
	"math/rand"
	"os"
	"strings"
	"sync"
	"time"

	"github.com/herohde/morlock/pkg/board"
	"github.com/herohde/morlock/pkg/engine"
	"github.com/herohde/morlock/pkg/eval"
	"github.com/herohde/morlock/pkg/search"
	"github.com/herohde/morlock/pkg/search/searchctl"
	"github.com/seekerror/stdlib/pkg/lang"
	"verif/harness/internal/gen"
	"verif/harness/internal/out"
	"verif/harness/internal/sdump"
	"verif/harness/internal/ucih"
)

func init() {
	register("determinism", "repeated / interleaved / concurrent analyses on real engines (C18)", determinism)
}

type detCase struct {
	spec  ucih.EngineSpec
	game  gameT
	depth int
}

func (c detCase) key() string {
	noise := "off"
	if c.spec.Noise > 0 {
		noise = fmt.Sprintf("%d/%d", c.spec.Noise, c.spec.Seed)
	}
	return fmt.Sprintf("%v|hash=%d|%v|%v|depth=%d|noise=%v", c.spec.Name, c.spec.Hash, c.game.fenOf(), strings.Join(c.game.moves, " "), c.depth, noise)
}

func setup(ctx context.Context, e *engine.Engine, g gameT) bool {
	if e.Reset(ctx, g.fenOf()) != nil {
		return false
	}
	for _, m := range g.moves {
		if e.Move(ctx, m) != nil {
			return false
		}
	}
	return true
}

// analyze runs one depth-limited analysis to its end and returns the last PV.
func analyze(ctx context.Context, e *engine.Engine, depth int) (search.PV, bool) {
	ch, err := e.Analyze(ctx, searchctl.Options{DepthLimit: lang.Some(uint(depth))})
	if err != nil {
		return search.PV{}, false
	}
	var last search.PV
	timeout := time.After(8 * time.Second)
	for {
		select {
		case pv, ok := <-ch:
			if !ok {
				_, _ = e.Halt(ctx)
				return last, true
			}
			last = pv
		case <-timeout:
			_, _ = e.Halt(ctx)
			return last, false
		}
	}
}

func determinism(args []string) {
	fs := flag.NewFlagSet("determinism", flag.ExitOnError)
	seed := fs.Int64("seed", 1, "seed")
	n := fs.Int("n", 10, "cases")
	path := fs.String("out", "", "output ndjson")
	reversed := fs.Bool("reversed", false, "run the same cases once each, in reverse order (a second process whose output is appended to the first's)")
	_ = fs.Parse(args)
	r := rand.New(rand.NewSource(*seed))
	w := out.Create(*path)
	ctx := context.Background()
	all := lightCorpus()
	names := []string{"morlock", "turochamp", "sargon", "bernstein"}
	var mu sync.Mutex

	run := func(e *engine.Engine, c detCase, how string, reset bool) bool {
		if reset && !setup(ctx, e, c.game) {
			out.Fatalf("setup failed for %v", c.key())
		}
		if os.Getenv("VERIF_DEBUG") != "" {
			fmt.Fprintln(os.Stderr, "run", how, c.key())
		}
		s0 := engineState(e)
		t0 := time.Now()
		pv, ok := analyze(ctx, e, c.depth)
		if how == "first" && (!ok || time.Since(t0) > 1500*time.Millisecond) {
			return false // too expensive a case for repeated runs: dropped before anything is recorded
		}
		s1 := engineState(e)
		rr := sdump.ResultOf(pv.Nodes, pv.Score, pv.Moves, nil)
		mu.Lock()
		w.Emit(out.M{"op": "det", "key": c.key(), "how": how, "complete": ok, "res": out.M{"depth": pv.Depth, "score": rr.Score, "pv": rr.Pv, "nodes": rr.Nodes},
			"state0": s0, "state1": s1})
		mu.Unlock()
		return true
	}

	var cases []detCase
	for i := 0; i < *n; i++ {
		g := gameT{start: "startpos"}
		if r.Intn(3) != 0 {
			g = gameT{start: "fen " + all[r.Intn(len(all))].Fen}
		}
		g = extend(r, g, r.Intn(8))
		spec := ucih.EngineSpec{Name: names[i%4], Seed: int64(r.Intn(3))}
		if r.Intn(3) == 0 {
			spec.Noise = 10
		}
		if spec.Name == "morlock" && r.Intn(2) == 0 {
			spec.Hash = 1
		}
		d := 1 + r.Intn(3)
		if len(g.moves) == 0 && g.start == "startpos" || spec.Name == "sargon" || spec.Name == "turochamp" {
			if d > 2 {
				d = 2
			}
		}
		cases = append(cases, detCase{spec: spec, game: g, depth: d})
	}

	// twins: a game in which the players castled, and the position it reached set up from its FEN (same
	// position and hash, other history: nobody has castled, no last move). Heuristics that read the history
	// must give each its own value whatever was searched before in this process.
	lines := []string{
		"e2e4 e7e5 g1f3 g8f6 f1c4 f8c5 e1g1 e8g8",
		"d2d4 d7d5 c1f4 c8f5 b1c3 b8c6 d1d2 d8d7 e1c1 e8c8",
		"e2e4 e7e5 g1f3 g8f6 f1c4 f8c5 e1g1 d7d6",
		"e2e4 e7e5 g1f3 g8f6 f1c4 f8c5 d2d3 e8g8 a2a3",
	}
	for i := 0; i < 4 && i < *n; i++ {
		g := gameT{start: "startpos", moves: strings.Fields(lines[r.Intn(len(lines))])}
		b := shadow(g)
		twin := gameT{start: "fen " + fen.Encode(b.Position(), b.Turn(), b.NoProgress(), b.FullMoves())}
		spec := ucih.EngineSpec{Name: []string{"turochamp", "sargon", "bernstein", "turochamp"}[i], Seed: int64(r.Intn(3))}
		d := 1 + r.Intn(2)
		cases = append(cases, detCase{spec: spec, game: g, depth: d}, detCase{spec: spec, game: twin, depth: d})
	}

	if *reversed {
		for i := len(cases) - 1; i >= 0; i-- {
			e, _ := ucih.Build(ctx, cases[i].spec)
			if setup(ctx, e, cases[i].game) {
				run(e, cases[i], "other-process-reversed-order", false)
			}
		}
		w.Close()
		return
	}

	var kept []detCase
	for i, c := range cases {
		e, _ := ucih.Build(ctx, c.spec)
		if !run(e, c, "first", true) {
			continue
		}
		kept = append(kept, c)
		// unrelated searches before it, on the same engine
		_ = i
		// an unrelated game of the same length (same ply, same side to move), so that anything the
		// engine remembers "per ply" or "per side" from it would be wrongly reused
		other := extend(r, gameT{start: "fen r1bqk1nr/pppp1ppp/2n5/2b1p3/2B1P3/5N2/PPPP1PPP/RNBQK2R w KQkq - 4 4"}, len(c.game.moves))
		if strings.Contains(c.game.fenOf(), " b ") {
			other = extend(r, gameT{start: "fen rnbqkb1r/pp2pppp/3p1n2/8/3NP3/2N5/PPP2PPP/R1BQKB1R b KQkq - 2 5"}, len(c.game.moves))
		}
		if setup(ctx, e, other) {
			_, _ = analyze(ctx, e, 1)
		}
		run(e, c, "after-unrelated-search", true)
		// the same engine again without setting the game up anew (no table carried over: hash off only)
		if c.spec.Hash == 0 && c.spec.Noise == 0 {
			run(e, c, "repeat-same-engine", false)
		}
		// a new engine
		e2, _ := ucih.Build(ctx, c.spec)
		run(e2, c, "new-engine", true)
		// a new engine whose FIRST search was an unrelated game of the same length
		e4, _ := ucih.Build(ctx, c.spec)
		if setup(ctx, e4, other) {
			_, _ = analyze(ctx, e4, 1)
		}
		run(e4, c, "new-engine-after-unrelated-search", true)
		// ... and the same through take-back: another move from the parent position searched first
		if n := len(c.game.moves); n > 0 && c.spec.Noise == 0 {
			e5, _ := ucih.Build(ctx, c.spec)
			parent := gameT{start: c.game.start, moves: c.game.moves[:n-1]}
			sib := extend(r, parent, 1)
			if setup(ctx, e5, sib) {
				_, _ = analyze(ctx, e5, 1)
				if e5.TakeBack(ctx) == nil && e5.Move(ctx, c.game.moves[n-1]) == nil {
					// a take-back makes the board forget a draw declared earlier in the line (the result is
					// sticky on the way down, reset on the way back): then the game states differ and so
					// may the searches. Compare only when the reported result is the same.
					ref, _ := ucih.Build(ctx, c.spec)
					if setup(ctx, ref, c.game) && ref.Board().Result() == e5.Board().Result() {
						run(e5, c, "after-takeback-of-sibling", false)
					}
				}
			}
		}
		// a different hash seed must not matter when noise is off (the seed also seeds the noise)
		if c.spec.Noise == 0 {
			s2 := c.spec
			s2.Seed = c.spec.Seed + 7
			e3, _ := ucih.Build(ctx, s2)
			run(e3, c, "other-hash-seed", true)
		}
	}
	// concurrently: four engines at a time, each running its own case, other engines alongside
	cases = kept
	for i := 0; i+4 <= len(cases); i += 4 {
		var wg sync.WaitGroup
		for j := 0; j < 4; j++ {
			wg.Add(1)
			go func(c detCase) {
				defer wg.Done()
				e, _ := ucih.Build(ctx, c.spec)
				run(e, c, "concurrent", true)
				run(e, c, "concurrent-again", true)
			}(cases[i+j])
		}
		wg.Wait()
	}
	// the game goes on while a halted search is still unwinding: a search that works on its board (a move
	// pushed, taken back late) must not disturb the engine's own game - its state must be what a fresh engine
	// holds after the same moves
	for i, c := range cases {
		if i >= 6 {
			break
		}
		legalNext := extend(r, c.game, 1)
		if len(legalNext.moves) == len(c.game.moves) {
			continue // no legal continuation
		}
		slow := &slowUnwind{entered: make(chan struct{}, 8)}
		e := engine.New(ctx, "slow-unwind", "verif", slow)
		if !setup(ctx, e, c.game) {
			continue
		}
		if _, err := e.Analyze(ctx, searchctl.Options{}); err != nil {
			continue
		}
		select {
		case <-slow.entered: // depth 2 is running with a move pushed on its board
		case <-time.After(5 * time.Second):
		}
		_, _ = e.Halt(ctx)
		ok := e.Move(ctx, legalNext.moves[len(legalNext.moves)-1]) == nil
		time.Sleep(3 * time.Millisecond) // the search takes its move back meanwhile
		ref, _ := ucih.Build(ctx, ucih.EngineSpec{Name: "morlock"})
		if !ok || !setup(ctx, ref, legalNext) {
			continue
		}
		key := fmt.Sprintf("slow-unwind|%v|%v", legalNext.fenOf(), strings.Join(legalNext.moves, " "))
		w.Emit(out.M{"op": "det", "key": key, "how": "move-while-halted-search-unwinds", "complete": true,
			"res":    out.M{"depth": 0, "score": sdump.ResultOf(0, eval.ZeroScore, nil, nil).Score, "pv": [][]int{}, "nodes": 0},
			"state0": engineState(ref), "state1": engineState(e)})
	}
	// searches restricted to a line (search.Context.Ponder), the way a caller may use them: the same context
	// handed to the search again, and a fresh one - the result depends on position, line and depth only
	for i := 0; i < *n/2+2; i++ {
		f := all[r.Intn(len(all))].Fen
		pos, turn, np, fm, err := fen.Decode(f)
		if err != nil {
			continue
		}
		b := board.NewBoard(board.NewZobristTable(int64(i)), pos, turn, np, fm)
		legal, _ := gen.LegalOf(b)
		if len(legal) == 0 {
			continue
		}
		m := legal[r.Intn(len(legal))]
		depth := 1 + r.Intn(2)
		root := search.AlphaBeta{Eval: search.Leaf{Eval: eval.Material{}}}
		key := fmt.Sprintf("ponder|%v|%v|%d", f, moveText(m), depth)
		shared := &search.Context{TT: search.NoTranspositionTable{}, Ponder: []board.Move{m}}
		for _, how := range []string{"first", "again-with-the-same-context", "again-with-the-same-context", "fresh-context"} {
			sctx := shared
			if how == "fresh-context" {
				sctx = &search.Context{TT: search.NoTranspositionTable{}, Ponder: []board.Move{m}}
			}
			fb := b.Fork()
			rec0 := sdump.Rec(fb)
			nodes, score, pv, serr := root.Search(ctx, sctx, fb, depth)
			rr := sdump.ResultOf(nodes, score, pv, serr)
			w.Emit(out.M{"op": "det", "key": key, "how": "ponder-line:" + how, "complete": serr == nil,
				"res": out.M{"depth": depth, "score": rr.Score, "pv": rr.Pv, "nodes": rr.Nodes}, "state0": rec0, "state1": sdump.Rec(fb)})
		}
	}
	w.Close()
}

// slowUnwind is a root search that, like a real one, works on the board it is given: from depth 2 on it pushes
// a move, waits to be halted, and takes the move back a little later.
type slowUnwind struct {
	entered chan struct{}
}

func (s *slowUnwind) Search(ctx context.Context, sctx *search.Context, b *board.Board, depth int) (uint64, eval.Score, []board.Move, error) {
	var first board.Move
	found := false
	for _, m := range b.Position().PseudoLegalMoves(b.Turn()) {
		if _, ok := b.Position().Move(m); ok {
			first, found = m, true
			break
		}
	}
	if depth < 2 || !found {
		if found {
			return 1, eval.ZeroScore, []board.Move{first}, nil
		}
		return 1, eval.ZeroScore, nil, nil
	}
	b.PushMove(first)
	s.entered <- struct{}{}
	<-ctx.Done()
	time.Sleep(time.Millisecond)
	b.PopMove()
	return 0, eval.InvalidScore, nil, search.ErrHalted
}
