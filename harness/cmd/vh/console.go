package main

import (
	"context"
	"flag"
	"fmt"
	"strings"
	"time"

	"github.com/herohde/morlock/pkg/engine"
	"github.com/herohde/morlock/pkg/engine/console"
	"github.com/herohde/morlock/pkg/eval"
	"github.com/herohde/morlock/pkg/search"
)

func init() {
	register("console", "probes of the console driver (beyond the listed properties; spec/Console.tla): evidence-only", consoleProbe)
}

// consoleProbe runs one probe of the console driver and prints "RESULT <probe> <counts>". The probes follow
// the three counterexamples TLC finds on spec/Console.tla with Fixed = FALSE, plus the argument slicing of
// `reset`. A Go panic in a driver goroutine kills this process: the caller reports the panic text.
func consoleProbe(args []string) {
	fs := flag.NewFlagSet("console", flag.ExitOnError)
	probe := fs.String("probe", "short-reset", "short-reset | quit-race | double-halt | stale-best")
	n := fs.Int("n", 200, "trials")
	_ = fs.Parse(args)
	ctx := context.Background()

	start := func() (chan<- string, <-chan string) {
		root := search.AlphaBeta{Eval: search.Leaf{Eval: eval.Material{}}}
		e := engine.New(ctx, "console-probe", "verif", root)
		in := make(chan string)
		_, out := console.NewDriver(ctx, e, root, in)
		return in, out
	}
	// drain collects lines until the channel is closed or nothing arrives for the given time
	drain := func(out <-chan string, idle time.Duration) ([]string, bool) {
		var lines []string
		for {
			select {
			case l, ok := <-out:
				if !ok {
					return lines, true
				}
				lines = append(lines, l)
			case <-time.After(idle):
				return lines, false
			}
		}
	}
	count := func(lines []string, prefix string) int {
		k := 0
		for _, l := range lines {
			if strings.HasPrefix(l, prefix) {
				k++
			}
		}
		return k
	}

	switch *probe {
	case "short-reset":
		// reset with fewer than six FEN fields: args[0:6] on a shorter slice
		in, out := start()
		go func() { in <- "reset 8/8/8/8/8/8/8/8 w" }()
		_, closed := drain(out, 500*time.Millisecond)
		fmt.Printf("RESULT short-reset survived closed=%v\n", closed)

	case "quit-race":
		// quit while the forwarder still holds a line of the halted analysis: send on the closed channel
		for i := 0; i < *n; i++ {
			in, out := start()
			go func() {
				in <- "analyze"
				time.Sleep(time.Duration(100+137*i%900) * time.Microsecond)
				in <- "quit"
			}()
			drain(out, 200*time.Millisecond)
		}
		time.Sleep(50 * time.Millisecond)
		fmt.Printf("RESULT quit-race survived trials=%d\n", *n)

	case "double-halt":
		// halt, halt: the second Halt fails and the loop completes the analysis with an empty result
		// (control: a single halt must always give the bestmove)
		lost, lostSingle := 0, 0
		for i := 0; i < 2**n; i++ {
			in, out := start()
			done := make(chan []string)
			go func() { l, _ := drain(out, 150*time.Millisecond); done <- l }()
			in <- "analyze"
			time.Sleep(2 * time.Millisecond)
			in <- "halt"
			if i%2 == 0 {
				in <- "halt"
			}
			lines := <-done
			if count(lines, "bestmove") == 0 {
				if i%2 == 0 {
					lost++
				} else {
					lostSingle++
				}
			}
			go func() { in <- "quit" }()
			drain(out, 100*time.Millisecond)
		}
		fmt.Printf("RESULT double-halt trials=%d no-bestmove=%d control-single-halt-no-bestmove=%d\n", *n, lost, lostSingle)

	case "stale-best":
		// analyze; a move; analyze 1: a bestmove computed for the earlier position
		stale := 0
		for i := 0; i < *n; i++ {
			in, out := start()
			done := make(chan []string)
			go func() { l, _ := drain(out, 200*time.Millisecond); done <- l }()
			in <- "analyze"
			time.Sleep(time.Duration(200+211*i%2000) * time.Microsecond)
			in <- "e2e4"
			in <- "analyze 1"
			lines := <-done
			for _, l := range lines {
				// after 1. e4 it is Black's move: a bestmove from rank 1/2 belongs to the earlier analysis
				if strings.HasPrefix(l, "bestmove ") && len(l) >= 11 && (l[10] == '1' || l[10] == '2') {
					stale++
					break
				}
			}
			go func() { in <- "quit" }()
			drain(out, 100*time.Millisecond)
		}
		fmt.Printf("RESULT stale-best trials=%d stale=%d\n", *n, stale)
	}
}
