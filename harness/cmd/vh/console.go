package main

import (
	"context"
	"flag"
	"fmt"
	"math/rand"
	"regexp"
	"strings"
	"time"

	"github.com/herohde/morlock/pkg/board"
	"github.com/herohde/morlock/pkg/board/fen"
	"github.com/herohde/morlock/pkg/engine"
	"github.com/herohde/morlock/pkg/engine/console"
	"github.com/herohde/morlock/pkg/eval"
	"github.com/herohde/morlock/pkg/search"
	"verif/harness/internal/corpus"
	"verif/harness/internal/gen"
	"verif/harness/internal/out"
)

func init() {
	register("console", "probes of the console driver (beyond the listed properties; spec/Console.tla): evidence-only", consoleProbe)
}

// consoleProbe runs one probe of the console driver and prints "RESULT <probe> <counts>". The probes follow
// the three counterexamples TLC finds on spec/Console.tla with Fixed = FALSE, plus the argument slicing of
// `reset`. A Go panic in a driver goroutine kills this process: the caller reports the panic text.
func consoleProbe(args []string) {
	fs := flag.NewFlagSet("console", flag.ExitOnError)
	probe := fs.String("probe", "short-reset", "short-reset | quit-race | double-halt | stale-best")
	n := fs.Int("n", 200, "trials")
	seed := fs.Int64("seed", 1, "seed (transparency)")
	path := fs.String("out", "", "output ndjson (transparency)")
	_ = fs.Parse(args)
	ctx := context.Background()
	if *probe == "transparency" {
		consoleTransparency(ctx, *seed, *n, *path)
		return
	}

	start := func() (chan<- string, <-chan string) {
		root := search.AlphaBeta{Eval: search.Leaf{Eval: eval.Material{}}}
		e := engine.New(ctx, "console-probe", "verif", root)
		in := make(chan string)
		_, out := console.NewDriver(ctx, e, root, in)
		return in, out
	}
	// drain collects lines until the channel is closed or nothing arrives for the given time
	drain := func(out <-chan string, idle time.Duration) ([]string, bool) {
		var lines []string
		for {
			select {
			case l, ok := <-out:
				if !ok {
					return lines, true
				}
				lines = append(lines, l)
			case <-time.After(idle):
				return lines, false
			}
		}
	}
	count := func(lines []string, prefix string) int {
		k := 0
		for _, l := range lines {
			if strings.HasPrefix(l, prefix) {
				k++
			}
		}
		return k
	}

	switch *probe {
	case "short-reset":
		// reset with fewer than six FEN fields: args[0:6] on a shorter slice
		in, out := start()
		go func() { in <- "reset 8/8/8/8/8/8/8/8 w" }()
		_, closed := drain(out, 500*time.Millisecond)
		fmt.Printf("RESULT short-reset survived closed=%v\n", closed)

	case "quit-race":
		// quit while the forwarder still holds a line of the halted analysis: send on the closed channel
		for i := 0; i < *n; i++ {
			in, out := start()
			go func() {
				in <- "analyze"
				time.Sleep(time.Duration(100+137*i%900) * time.Microsecond)
				in <- "quit"
			}()
			drain(out, 200*time.Millisecond)
		}
		time.Sleep(50 * time.Millisecond)
		fmt.Printf("RESULT quit-race survived trials=%d\n", *n)

	case "double-halt":
		// halt, halt: the second Halt fails and the loop completes the analysis with an empty result
		// (control: a single halt must always give the bestmove)
		lost, lostSingle := 0, 0
		for i := 0; i < 2**n; i++ {
			in, out := start()
			done := make(chan []string)
			go func() { l, _ := drain(out, 150*time.Millisecond); done <- l }()
			in <- "analyze"
			time.Sleep(2 * time.Millisecond)
			in <- "halt"
			if i%2 == 0 {
				in <- "halt"
			}
			lines := <-done
			if count(lines, "bestmove") == 0 {
				if i%2 == 0 {
					lost++
				} else {
					lostSingle++
				}
			}
			go func() { in <- "quit" }()
			drain(out, 100*time.Millisecond)
		}
		fmt.Printf("RESULT double-halt trials=%d no-bestmove=%d control-single-halt-no-bestmove=%d\n", *n, lost, lostSingle)

	case "stale-best":
		// analyze; a move; analyze 1: a bestmove computed for the earlier position
		stale := 0
		for i := 0; i < *n; i++ {
			in, out := start()
			done := make(chan []string)
			go func() { l, _ := drain(out, 200*time.Millisecond); done <- l }()
			in <- "analyze"
			time.Sleep(time.Duration(200+211*i%2000) * time.Microsecond)
			in <- "e2e4"
			in <- "analyze 1"
			lines := <-done
			for _, l := range lines {
				// after 1. e4 it is Black's move: a bestmove from rank 1/2 belongs to the earlier analysis
				if strings.HasPrefix(l, "bestmove ") && len(l) >= 11 && (l[10] == '1' || l[10] == '2') {
					stale++
					break
				}
			}
			go func() { in <- "quit" }()
			drain(out, 100*time.Millisecond)
		}
		fmt.Printf("RESULT stale-best trials=%d stale=%d\n", *n, stale)
	}
}

// plainZero: a negated zero prints as -0.00; it is the same score as 0.00
func plainZero(s string) string {
	if s == "-0.00" {
		return "0.00"
	}
	return s
}

var pvLine = regexp.MustCompile(`^depth=(\d+) score=(\S+) `)
var subLine = regexp.MustCompile(`^\s*\d+\. ([^\t]+)\t(\S+)\t`)

// consoleTransparency: the same console session (new game, moves, analyses to a fixed depth, take-backs and
// deeper analyses of the position before) on a driver with a table (hash 1) and on one without (nohash).
// Recorded per analysis: the final "depth=.. score=.." line, the bestmove and the per-move breakdown.
func consoleTransparency(ctx context.Context, seed int64, n int, path string) {
	r := rand.New(rand.NewSource(seed))
	w := out.Create(path)
	all := corpus.All()
	zt := board.NewZobristTable(0)
	for i := 0; i < n; i++ {
		f := all[r.Intn(len(all))].Fen
		pos, turn, _, _, err := fen.Decode(f)
		if err != nil {
			continue
		}
		parts := strings.Split(f, " ")
		f = strings.Join(append(parts[:4], "0", "1"), " ")
		b := board.NewBoard(zt, pos, turn, 0, 1)
		g := gen.New(r.Int63(), nil, gen.Flags{})
		// the script: every step is a command and, for analyses, the number of legal moves of the position
		type step struct {
			cmd    string
			nlegal int
		}
		var steps []step
		steps = append(steps, step{"reset " + f, 0})
		legalNow := func() []board.Move { l, _ := gen.LegalOf(b); return l }
		depth := 1 + r.Intn(2)
		ok := true
		if i%2 == 0 {
			// a move, an analysis, the move taken back, the position before analysed one ply deeper: the
			// position after the move is then an interior node at exactly the depth it was analysed to
			if l := legalNow(); len(l) > 0 {
				m := g.Pick(l)
				b.PushMove(m)
				if l2 := legalNow(); len(l2) > 0 {
					steps = append(steps, step{moveText(m), 0}, step{fmt.Sprintf("analyze %d", depth), len(l2)}, step{"undo", 0})
					b.PopMove()
					depth++
					steps = append(steps, step{fmt.Sprintf("analyze %d", depth), len(l)})
				} else {
					b.PopMove()
				}
			}
		}
		for k := 0; k < 2+r.Intn(3) && ok && i%2 == 1; k++ {
			l := legalNow()
			if len(l) == 0 {
				ok = false
				break
			}
			switch x := r.Intn(4); {
			case x == 0 && b.Ply() > 1:
				b.PopMove()
				steps = append(steps, step{"undo", 0})
				depth++
			case x <= 1:
				m := g.Pick(l)
				b.PushMove(m)
				steps = append(steps, step{moveText(m), 0})
			}
			if l = legalNow(); len(l) == 0 {
				ok = false
				break
			}
			if depth > 3 {
				depth = 3
			}
			steps = append(steps, step{fmt.Sprintf("analyze %d", depth), len(l)})
		}
		if !ok {
			continue
		}
		run := func(first string) ([]out.M, string) {
			root := search.AlphaBeta{Eval: search.Leaf{Eval: eval.Material{}}}
			e := engine.New(ctx, "console-tt", "verif", root)
			in := make(chan string)
			_, lines := console.NewDriver(ctx, e, root, in)
			next := func() (string, bool) {
				select {
				case l, ok := <-lines:
					return l, ok
				case <-time.After(60 * time.Second):
					return "", false
				}
			}
			send := func(c string) bool {
				for {
					select {
					case in <- c:
						return true
					case _, ok := <-lines: // board print-outs and the like
						if !ok {
							return false
						}
					case <-time.After(60 * time.Second):
						return false
					}
				}
			}
			var res []out.M
			if !send(first) {
				return nil, "driver does not take commands"
			}
			for _, st := range steps {
				if !send(st.cmd) {
					return nil, "driver does not take commands"
				}
				if st.nlegal == 0 {
					continue
				}
				a := out.M{"final": "", "best": "", "lines": [][]string{}}
				for {
					l, ok := next()
					if !ok {
						return nil, "analysis does not complete"
					}
					if m := pvLine.FindStringSubmatch(l); m != nil {
						a["final"] = "depth=" + m[1] + " score=" + plainZero(m[2])
					} else if strings.HasPrefix(l, "bestmove ") {
						a["best"] = strings.TrimPrefix(l, "bestmove ")
					} else if strings.HasPrefix(l, "Search, depth=") {
						break
					}
				}
				var sub [][]string
				for k := 0; k < st.nlegal; k++ {
					l, ok := next()
					m := subLine.FindStringSubmatch(l)
					if !ok || m == nil {
						return nil, "breakdown incomplete: " + l
					}
					sub = append(sub, []string{m[1], plainZero(m[2])})
				}
				a["lines"] = sub
				res = append(res, a)
			}
			go func() {
				for range lines {
				}
			}()
			send("quit")
			return res, ""
		}
		on, e1 := run("hash 1")
		off, e2 := run("nohash")
		if on == nil {
			on = []out.M{}
		}
		if off == nil {
			off = []out.M{}
		}
		var cmds []string
		for _, st := range steps {
			cmds = append(cmds, st.cmd)
		}
		w.Emit(out.M{"op": "consolett", "cmds": cmds, "on": on, "off": off, "trouble": e1 + e2})
	}
	w.Close()
}
