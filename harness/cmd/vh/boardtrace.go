package main

import (
	"encoding/json"
	"flag"
	"os"
	"strconv"
	"strings"

	"github.com/herohde/morlock/pkg/board"
	"github.com/herohde/morlock/pkg/board/fen"
	"verif/harness/internal/corpus"
	"verif/harness/internal/gen"
	"verif/harness/internal/out"
	"verif/harness/internal/proj"
)

func init() {
	register("boardtrace", "record positions / board programmes of the real pkg/board (C01 C02 C05 C06 C07 C08 C14)", boardtrace)
}

func boardtrace(args []string) {
	fs := flag.NewFlagSet("boardtrace", flag.ExitOnError)
	mode := fs.String("mode", "play", "play | prog | dance | tree | synthetic")
	seed := fs.Int64("seed", 1, "random seed")
	n := fs.Int("n", 10, "number of games / programmes / positions")
	plies := fs.Int("plies", 80, "maximum plies per game")
	depth := fs.Int("depth", 2, "tree mode: depth")
	shard := fs.Int("shard", 0, "tree mode: this shard")
	shards := fs.Int("shards", 1, "tree mode: number of shards")
	events := fs.String("events", "gen", "comma separated: gen,views,board,prev")
	path := fs.String("out", "", "output ndjson")
	stats := fs.String("stats", "", "coverage counters (json)")
	maxEvents := fs.Int("max-events", 0, "stop after this many events (0 = no limit)")
	_ = fs.Parse(args)

	var f gen.Flags
	for _, e := range strings.Split(*events, ",") {
		switch e {
		case "gen":
			f.Gen = true
		case "views":
			f.Views = true
		case "board":
			f.Board = true
		case "prev":
			f.Prev = true
		case "derived":
			f.Deriv = true
		}
	}
	w := out.Create(*path)
	g := gen.New(*seed, w, f)

	full := func() bool { return *maxEvents > 0 && w.N >= *maxEvents }

	switch *mode {
	case "play":
		all := corpus.All()
		for i := 0; i < *n && !full(); i++ {
			e := all[(i+int(*seed))%len(all)]
			if i%3 == 0 {
				e = all[0] // many games from the start position
			}
			play(g, e.Fen, *plies, int64(i)+*seed*7919)
		}
	case "prog":
		all := corpus.All()
		for i := 0; i < *n && !full(); i++ {
			e := all[g.R.Intn(len(all))]
			programme(g, e.Fen, *plies, int64(i)+*seed*104729)
		}
	case "dance":
		all := corpus.All()
		for i := 0; i < *n && !full(); i++ {
			e := all[g.R.Intn(len(all))]
			dance(g, e.Fen, int64(i)+*seed*15485863)
		}
	case "tree":
		for i, e := range corpus.All() {
			if i%*shards != *shard {
				continue
			}
			pos, turn, np, fm, err := fen.Decode(e.Fen)
			if err != nil || pos == nil {
				out.Fatalf("bad corpus fen %v", e.Fen)
			}
			tree(g, pos, turn, np, fm, *depth)
		}
	case "synthetic":
		for i := 0; i < *n && !full(); i++ {
			synthetic(g)
		}
	case "material":
		for i := 0; i < *n && !full(); i++ {
			material(g, int64(i)+*seed*32452843)
		}
	case "allmoves":
		// every legal move of every corpus position pushed on a game board and taken back; after the
		// special moves (captures, promotions, castling, en passant, double steps) every reply as well
		for i, e := range corpus.All() {
			if i%*shards != *shard || full() {
				continue
			}
			pr := g.NewProg(int64(i) + *seed*86028121)
			l, err := pr.New(e.Fen)
			if err != nil {
				out.Fatalf("%v", err)
			}
			legal, _ := gen.LegalOf(l.B)
			for _, m := range legal {
				if !pr.Push(l, m) {
					continue
				}
				if m.Type != board.Normal && m.Type != board.Push {
					replies, _ := gen.LegalOf(l.B)
					for k, rm := range replies {
						if (rm.Type != board.Normal && rm.Type != board.Push || k%5 == 0) && pr.Push(l, rm) {
							pr.Pop(l)
						}
					}
				}
				pr.Pop(l)
			}
		}
	default:
		out.Fatalf("unknown mode %v", *mode)
	}
	w.Close()

	if *stats != "" {
		data, _ := json.Marshal(g.Count)
		_ = os.WriteFile(*stats, data, 0o644)
	}
}

// play: one random game with the rare move kinds favoured; sometimes an illegal
// pseudo-legal move is attempted first (it must be refused and change nothing).
func play(g *gen.G, start string, plies int, ztSeed int64) {
	pr := g.NewProg(ztSeed)
	l, err := pr.New(start)
	if err != nil {
		out.Fatalf("%v", err)
	}
	for i := 0; i < plies; i++ {
		b := l.B
		legal, illegal := gen.LegalOf(b)
		if len(illegal) > 0 && g.R.Intn(6) == 0 {
			pr.Push(l, illegal[g.R.Intn(len(illegal))])
		}
		if len(legal) == 0 {
			pr.Adjudicate(l)
			return
		}
		pr.Push(l, g.Pick(legal))
	}
}

// programme: random push / refused push / pop / fork operations over up to four boards.
func programme(g *gen.G, start string, ops int, ztSeed int64) {
	pr := g.NewProg(ztSeed)
	l, err := pr.New(start)
	if err != nil {
		out.Fatalf("%v", err)
	}
	lives := []*gen.Live{l}
	for i := 0; i < ops; i++ {
		cur := lives[g.R.Intn(len(lives))]
		b := cur.B
		legal, illegal := gen.LegalOf(b)
		x := g.R.Intn(100)
		switch {
		case x < 8 && len(lives) < 4:
			lives = append(lives, pr.Fork(cur))
		case x < 30 && pr.CanPop(cur):
			k := 1 + g.R.Intn(3)
			for j := 0; j < k && pr.CanPop(cur); j++ {
				pr.Pop(cur)
			}
		case x < 36 && len(illegal) > 0:
			pr.Push(cur, illegal[g.R.Intn(len(illegal))])
		default:
			if len(legal) == 0 {
				pr.Adjudicate(cur)
				if pr.CanPop(cur) {
					pr.Pop(cur)
				}
				continue
			}
			if rev, ok := gen.Reverse(b, legal); ok && g.R.Intn(3) != 0 {
				pr.Push(cur, rev)
			} else if g.R.Intn(2) == 0 {
				pr.Push(cur, g.PickQuiet(legal))
			} else {
				pr.Push(cur, g.Pick(legal))
			}
		}
	}
}

// dance: a random prefix (ending in whatever kind of move), then both sides shuffle a
// piece back and forth so that positions repeat 3..6 times; then long quiet play towards
// the fifty-move limit. The first occurrence of the repeated position is therefore the
// set-up position or directly follows a capture, a castling move, a double step, ...
func dance(g *gen.G, start string, ztSeed int64) {
	pr := g.NewProg(ztSeed)
	l, err := pr.New(start)
	if err != nil {
		out.Fatalf("%v", err)
	}
	prefix := 0
	if g.R.Intn(3) != 0 {
		prefix = g.R.Intn(7)
	}
	for i := 0; i < prefix; i++ {
		legal, _ := gen.LegalOf(l.B)
		if len(legal) == 0 {
			pr.Adjudicate(l)
			return
		}
		pr.Push(l, g.Pick(legal))
	}
	// sometimes the dance starts right after a double pawn step or a move that loses a castling right:
	// the position with the en passant target / the old rights is a DIFFERENT position from the one the
	// dance then repeats
	if g.R.Intn(3) == 0 {
		legal, _ := gen.LegalOf(l.B)
		var special []board.Move
		for _, m := range legal {
			if m.Type == board.Jump || (m.Type == board.Normal && (m.Piece == board.King || m.Piece == board.Rook) && l.B.Position().Castling() != 0) {
				special = append(special, m)
			}
		}
		if len(special) > 0 {
			pr.Push(l, special[g.R.Intn(len(special))])
		}
	}
	var fork *gen.Live
	if g.R.Intn(3) == 0 {
		fork = pr.Fork(l) // repetition spanning a fork: the fork continues the dance
		l = fork
	}
	// two opening quiet moves, then reversals
	cycles := 2 + g.R.Intn(5)
	for i := 0; i < 2+4*cycles; i++ {
		b := l.B
		legal, _ := gen.LegalOf(b)
		if len(legal) == 0 {
			pr.Adjudicate(l)
			return
		}
		if rev, ok := gen.Reverse(b, legal); ok && i >= 2 {
			pr.Push(l, rev)
		} else {
			pr.Push(l, g.PickQuiet(legal))
		}
		if g.R.Intn(40) == 0 && pr.CanPop(l) {
			pr.Pop(l)
		}
	}
	// quiet continuation
	for i := 0; i < 20+g.R.Intn(100); i++ {
		legal, _ := gen.LegalOf(l.B)
		if len(legal) == 0 {
			pr.Adjudicate(l)
			return
		}
		pr.Push(l, g.PickQuiet(legal))
	}
}

// material: kings plus two to four pieces drawn from the material that decides "insufficient"
// (bishops on both square colours, knights, a pawn about to promote, one heavier piece to be
// captured); every legal move is pushed and taken back, so that each capture and under-promotion
// that leaves minimal material is judged, for all square colours and owners.
func material(g *gen.G, ztSeed int64) {
	r := g.R
	for tries := 0; tries < 200; tries++ {
		var sq [64]byte
		put := func(c byte) int {
			for k := 0; k < 100; k++ {
				s := r.Intn(64)
				if sq[s] != 0 {
					continue
				}
				rank := s / 8
				if (c == 'P' && rank != 6 && rank != 5) || (c == 'p' && rank != 1 && rank != 2) {
					continue
				}
				sq[s] = c
				return s
			}
			return -1
		}
		wk := put('K')
		bk := put('k')
		if d := (wk%8 - bk%8); d >= -1 && d <= 1 {
			if e := (wk/8 - bk/8); e >= -1 && e <= 1 {
				continue
			}
		}
		pool := []byte("BBbbBbNnPpRrQq")
		turnIdx := r.Intn(2)
		if r.Intn(3) == 0 {
			// a pawn about to promote with an enemy piece to capture on the last rank next to it (so that a
			// capturing under-promotion can leave bare minimal material), sometimes one more bishop
			white := r.Intn(2) == 0
			file := r.Intn(8)
			vf := file + 1
			if file == 7 || (file > 0 && r.Intn(2) == 0) {
				vf = file - 1
			}
			prow, vrow, pc, victims := 6, 7, byte('P'), "rnbq"
			if !white {
				prow, vrow, pc, victims = 1, 0, 'p', "RNBQ"
				turnIdx = 1
			} else {
				turnIdx = 0
			}
			if sq[prow*8+file] == 0 && sq[vrow*8+vf] == 0 {
				sq[prow*8+file] = pc
				sq[vrow*8+vf] = victims[r.Intn(4)]
				if r.Intn(3) == 0 {
					put([]byte("Bb")[r.Intn(2)])
				}
			}
		} else {
			for k := 0; k < 2+r.Intn(3); k++ {
				c := pool[r.Intn(len(pool))]
				if k < 2 && r.Intn(3) != 0 {
					c = []byte("Bb")[r.Intn(2)]
				}
				put(c)
			}
		}
		var sb strings.Builder
		for rank := 7; rank >= 0; rank-- {
			empty := 0
			for file := 0; file < 8; file++ {
				c := sq[rank*8+file]
				if c == 0 {
					empty++
					continue
				}
				if empty > 0 {
					sb.WriteString(strconv.Itoa(empty))
					empty = 0
				}
				sb.WriteByte(c)
			}
			if empty > 0 {
				sb.WriteString(strconv.Itoa(empty))
			}
			if rank > 0 {
				sb.WriteByte('/')
			}
		}
		f := sb.String() + " " + []string{"w", "b"}[turnIdx] + " - - 0 1"
		pos, turn, _, _, err := fen.Decode(f)
		if err != nil || pos == nil || pos.IsChecked(turn.Opponent()) {
			continue
		}
		pr := g.NewProg(ztSeed)
		l, err := pr.New(f)
		if err != nil {
			continue
		}
		legal, _ := gen.LegalOf(l.B)
		for _, m := range legal {
			if pr.Push(l, m) {
				// one reply ply as well: the capture that leaves minimal material is often the answer
				if m.IsCapture() || m.IsPromotion() || r.Intn(4) == 0 {
					replies, _ := gen.LegalOf(l.B)
					for _, rm := range replies {
						if (rm.IsCapture() || rm.IsPromotion()) && pr.Push(l, rm) {
							pr.Pop(l)
						}
					}
				}
				pr.Pop(l)
			}
		}
		return
	}
}

// tree: every position of the legal-move tree below a position, to the given depth.
func tree(g *gen.G, pos *board.Position, turn board.Color, np, fm, depth int) {
	if g.F.Gen {
		g.GenEvent(pos, turn)
	}
	if g.F.Views {
		g.ViewsEvent(pos, turn, np, fm)
	}
	if g.F.Deriv {
		g.DerivedEvent(pos, turn)
	}
	if depth == 0 {
		return
	}
	for _, m := range pos.PseudoLegalMoves(turn) {
		next, ok := pos.Move(m)
		if !ok {
			continue
		}
		if g.F.Prev {
			g.W.Emit(out.M{"op": "move", "pre": proj.Position(pos, turn), "m": proj.MoveMeta(m), "post": proj.Position(next, turn.Opponent())})
		}
		tree(g, next, turn.Opponent(), np+1, fm, depth-1)
	}
}

// synthetic: random placements with odd material; the specification filters the
// well-formed ones (the harness does not decide what is a legal position).
func synthetic(g *gen.G) {
	var pieces []board.Placement
	used := map[board.Square]bool{}
	place := func(c board.Color, p board.Piece) {
		for tries := 0; tries < 100; tries++ {
			sq := board.Square(g.R.Intn(64))
			if used[sq] {
				continue
			}
			if p == board.Pawn && (sq.Rank() == board.Rank1 || sq.Rank() == board.Rank8) {
				continue
			}
			used[sq] = true
			pieces = append(pieces, board.Placement{Square: sq, Color: c, Piece: p})
			return
		}
	}
	place(board.White, board.King)
	place(board.Black, board.King)
	kinds := []board.Piece{board.Pawn, board.Pawn, board.Pawn, board.Knight, board.Bishop, board.Rook, board.Queen}
	heavy := g.R.Intn(4) == 0
	n := g.R.Intn(12)
	if heavy {
		n = 10 + g.R.Intn(20)
	}
	mono := board.NoPiece
	if g.R.Intn(5) == 0 {
		mono = kinds[3+g.R.Intn(4)] // many pieces of one kind
	}
	for i := 0; i < n; i++ {
		p := kinds[g.R.Intn(len(kinds))]
		if mono != board.NoPiece && g.R.Intn(3) != 0 {
			p = mono
		}
		place(board.Color(g.R.Intn(2)), p)
	}
	turn := board.Color(g.R.Intn(2))
	pos, err := board.NewPosition(pieces, board.NoCastlingRights, board.ZeroSquare)
	if err != nil || pos == nil {
		return
	}
	if g.F.Gen {
		g.GenEvent(pos, turn)
	}
	if g.F.Views {
		g.ViewsEvent(pos, turn, g.R.Intn(150), 1+g.R.Intn(200))
	}
	if g.F.Deriv {
		g.DerivedEvent(pos, turn)
	}
}
