package main

import (
	"context"
	"flag"
	"math/rand"
	"sync"
	"time"

	"github.com/herohde/morlock/pkg/board"
	"github.com/herohde/morlock/pkg/eval"
	"github.com/herohde/morlock/pkg/search"
	"github.com/herohde/morlock/pkg/search/searchctl"
	"github.com/herohde/morlock/pkg/verifhook"
	"github.com/seekerror/stdlib/pkg/lang"
	"verif/harness/internal/out"
	"verif/harness/internal/proj"
	"verif/harness/internal/sched"
	"verif/harness/internal/sdump"
)

func init() {
	register("iterative", "iterative deepening: PV streams vs fixed-depth searches, Halt under schedules, time-control limits (C15)", iterative)
}

func pvRec(pv search.PV) out.M {
	r := sdump.ResultOf(pv.Nodes, pv.Score, pv.Moves, nil)
	return out.M{"depth": pv.Depth, "score": r.Score, "pv": r.Pv}
}

func iterative(args []string) {
	fs := flag.NewFlagSet("iterative", flag.ExitOnError)
	mode := fs.String("mode", "stream", "stream | halt | limits")
	seed := fs.Int64("seed", 1, "seed")
	n := fs.Int("n", 20, "runs")
	path := fs.String("out", "", "output ndjson")
	_ = fs.Parse(args)
	if !verifhook.Enabled {
		out.Fatalf("built without the verif tag")
	}
	r := rand.New(rand.NewSource(*seed))
	w := out.Create(*path)
	ctx := context.Background()

	switch *mode {
	case "stream":
		roots := makeRoots(r, *n, false, false, false)
		names := []string{"morlock", "hash", "qshash", "turochamp", "bernstein", "sargon"}
		for i, root := range roots {
			c := sdump.NewConfig(names[i%len(names)])
			ctl := sched.New(r.Int63())
			verifhook.Install(ctl.Handle)
			limit := []int{1, 2, 3, 3, 0}[r.Intn(5)]
			if root.b.Position().All().PopCount() > 16 && limit == 0 {
				limit = 2
			}
			var tt search.TranspositionTable = search.NoTranspositionTable{}
			useTT := r.Intn(3) == 0 && c.PosDet
			if useTT {
				tt = search.NewTranspositionTable(ctx, 1<<20)
			}
			opt := searchctl.Options{}
			if limit > 0 {
				opt.DepthLimit = lang.Some(uint(limit))
			}
			it := &searchctl.Iterative{Root: c.Search}
			h, ch := it.Launch(ctx, root.b.Fork(), tt, eval.Random{}, opt)
			var received []out.M
			var halt out.M
			halted := false
			haltAt := 3 + r.Intn(2)
			deadline := time.After(20 * time.Second)
		loop:
			for {
				select {
				case pv, ok := <-ch:
					if !ok {
						break loop
					}
					received = append(received, pvRec(pv))
					if limit == 0 && pv.Depth >= haltAt && !halted {
						halted = true
						halt = pvRec(h.Halt())
					}
				case <-deadline:
					if !halted {
						halted = true
						halt = pvRec(h.Halt())
					}
				}
			}
			ctl.WaitCount("iter.exit", 1, 5*time.Second)
			verifhook.Install(nil)
			ctl.Close()
			published := []int{}
			for _, e := range ctl.Events() {
				if e.Name == "iter.published" {
					published = append(published, e.Args[0].(int))
				}
			}
			maxd := 0
			for _, d := range published {
				if d > maxd {
					maxd = d
				}
			}
			// the oracle for each depth: a direct fixed-depth search on a fresh fork, no table
			direct := []out.M{}
			for d := 1; d <= maxd; d++ {
				nodes, score, pv, err := c.Search.Search(ctx, &search.Context{TT: search.NoTranspositionTable{}}, root.b.Fork(), d)
				rr := sdump.ResultOf(nodes, score, pv, err)
				direct = append(direct, out.M{"depth": d, "score": rr.Score, "pv": rr.Pv})
			}
			if received == nil {
				received = []out.M{}
			}
			if halt == nil {
				halt = out.M{"depth": -1, "score": proj.Score{T: "I"}, "pv": [][]int{}}
			}
			w.Emit(out.M{"op": "iterrun", "cfg": c.Name, "desc": root.desc, "limit": limit, "tt": useTT, "published": published,
				"received": received, "halted": halted, "halt": halt, "direct": direct})
		}

	case "halt":
		// directed schedules first (orderings of Iterative.tla that plain timing rarely produces): the search
		// goroutine is held right after it published depth d (before it decides whether to go on) until a
		// Halt requested after the consumer saw depth d has returned - Halt must return depth >= d
		stuck := false // a run whose Halt never returned leaves goroutines behind: it is the last one
		for i := 0; i < 6 && i < *n && !stuck; i++ {
			d := 2 + i%3
			limit := 0
			if i >= 3 {
				limit = d // ... also when the goroutine is about to end by itself at the depth limit
			}
			ctl := sched.New(r.Int63())
			ctl.Rules = []*sched.Rule{{Point: "iter.published", Occ: d, Until: "halt.return", UntilOcc: 1 + i%2, Timeout: 3 * time.Second}}
			verifhook.Install(ctl.Handle)
			stub := newStub(ctl)
			it := &searchctl.Iterative{Root: stub}
			opt := searchctl.Options{}
			if limit > 0 {
				opt.DepthLimit = lang.Some(uint(limit))
			}
			b := makeRoots(r, 1, false, false, false)[0].b
			h, ch := it.Launch(ctx, b.Fork(), search.NoTranspositionTable{}, eval.Random{}, opt)
			var wg sync.WaitGroup
			wg.Add(1)
			go func() {
				defer wg.Done()
				for pv := range ch {
					ctl.Mark("consumer.received", pv.Depth)
				}
			}()
			for dd := 1; dd <= d; dd++ {
				stub.Release(1, dd)
			}
			// the consumer has seen depth d (the channel keeps only the latest, so wait for that very depth)
			deadline := time.Now().Add(3 * time.Second)
			for seen := false; !seen && time.Now().Before(deadline); time.Sleep(200 * time.Microsecond) {
				for _, e := range ctl.Events() {
					if e.Name == "consumer.received" && e.Args[0].(int) == d {
						seen = true
					}
				}
			}
			for id := 1; id <= 1+i%2; id++ {
				id := id
				wg.Add(1)
				ctl.Mark("halt.call", id)
				go func() {
					defer wg.Done()
					pv := h.Halt()
					ctl.Mark("halt.return", id, pv.Depth, proj.ScoreOf(pv.Score).V)
				}()
			}
			done := make(chan struct{})
			go func() { wg.Wait(); close(done) }()
			select {
			case <-done:
			case <-time.After(30 * time.Second):
				// every gate the search could wait for is open: a Halt that has not returned by now never will
				ctl.Mark("halt.stuck")
				stuck = true
			}
			for dd := 1; dd <= 12; dd++ {
				stub.Release(1, dd)
			}
			ctl.WaitCount("iter.exit", 1, 5*time.Second)
			verifhook.Install(nil)
			ctl.Close()
			w.Emit(out.M{"op": "iterhalt", "limit": limit, "mate": 0, "events": ctl.Events()})
		}
		for i := 0; i < *n && !stuck; i++ {
			ctl := sched.New(r.Int63())
			ctl.Delay, ctl.MaxUs = []int{0, 30, 60}[r.Intn(3)], 400
			verifhook.Install(ctl.Handle)
			stub := newStub(ctl)
			it := &searchctl.Iterative{Root: stub}
			opt := searchctl.Options{}
			limit := []int{0, 0, 2, 3, 4}[r.Intn(5)]
			if limit > 0 {
				opt.DepthLimit = lang.Some(uint(limit))
			}
			if r.Intn(4) == 0 {
				stub.mate[1] = 1 + r.Intn(3)
			}
			if r.Intn(2) == 0 {
				// a clock with plenty of time: the limits are far away, halting must work all the same
				opt.TimeControl = lang.Some(searchctl.TimeControl{White: 20 * time.Minute, Black: 20 * time.Minute, Moves: r.Intn(3) * 20})
			}
			b := makeRoots(r, 1, false, false, false)[0].b
			h, ch := it.Launch(ctx, b.Fork(), search.NoTranspositionTable{}, eval.Random{}, opt)
			// consumer
			var wg sync.WaitGroup
			consumed := make(chan struct{})
			go func() {
				defer close(consumed)
				for pv := range ch {
					ctl.Mark("consumer.received", pv.Depth)
				}
			}()
			callers := 1 + r.Intn(2)
			steps := 2 + r.Intn(6)
			called := 0
			for s := 0; s < steps; s++ {
				switch {
				case r.Intn(3) == 0 && called < callers:
					called++
					id := called
					wg.Add(1)
					ctl.Mark("halt.call", id)
					go func() {
						defer wg.Done()
						pv := h.Halt()
						ctl.Mark("halt.return", id, pv.Depth, proj.ScoreOf(pv.Score).V)
					}()
				default:
					stub.Release(1, 1+r.Intn(5))
				}
				time.Sleep(time.Duration(r.Intn(300)) * time.Microsecond)
			}
			// finish: Halt waits for the first iteration, so release it; then halt if still running
			stub.Release(1, 1)
			if called == 0 {
				called++
				wg.Add(1)
				ctl.Mark("halt.call", 1)
				go func() {
					defer wg.Done()
					pv := h.Halt()
					ctl.Mark("halt.return", 1, pv.Depth, proj.ScoreOf(pv.Score).V)
				}()
			}
			done := make(chan struct{})
			go func() { wg.Wait(); close(done) }()
			select {
			case <-done:
			case <-time.After(30 * time.Second):
				// depth 1 has been released: a Halt that has not returned by now never will
				ctl.Mark("halt.stuck")
				stuck = true
			}
			if !stuck {
				// every Halt has returned: the search must notice, stop, and close its stream
				select {
				case <-consumed:
				case <-time.After(20 * time.Second):
					ctl.Mark("iter.no-exit")
					stuck = true
				}
			}
			ctl.WaitCount("iter.exit", 1, 2*time.Second)
			verifhook.Install(nil)
			ctl.Close()
			w.Emit(out.M{"op": "iterhalt", "limit": limit, "mate": stub.mate[1], "events": ctl.Events()})
		}

	case "limits":
		emit := func(unit string, rem, moves int, c board.Color) {
			tc := searchctl.TimeControl{Moves: moves}
			d := time.Duration(rem)
			if unit == "ms" {
				d *= time.Millisecond
			}
			other := time.Duration(r.Intn(1000)) * time.Millisecond
			if c == board.White {
				tc.White, tc.Black = d, other
			} else {
				tc.White, tc.Black = other, d
			}
			soft, hard := tc.Limits(c)
			div := time.Duration(1)
			if unit == "ms" {
				div = time.Millisecond
			}
			w.Emit(out.M{"op": "limits", "unit": unit, "rem": rem, "moves": moves, "color": int(c),
				"soft": int(soft / div), "hard": int(hard / div), "exact": soft%div == 0 && hard%div == 0})
		}
		for i := 0; i < *n; i++ {
			c := board.Color(r.Intn(2))
			moves := r.Intn(62) - 1
			switch r.Intn(3) {
			case 0: // nanoseconds, exactly
				emit("ns", r.Intn(2_000_000_000), moves, c)
			case 1: // small values
				emit("ns", r.Intn(300), moves, c)
			default: // whole-millisecond multiples of 2*moves' up to 24 h
				m := 40
				if moves > 0 {
					m = moves + 1
				}
				k := r.Intn(86_400_000 / (2 * m))
				emit("ms", k*2*m, moves, c)
			}
		}
	}
	w.Close()
}
