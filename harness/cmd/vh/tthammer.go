package main

import (
	"context"
	"flag"
	"math/rand"
	"runtime"
	"sort"
	"sync"
	"sync/atomic"

	"time"

	"github.com/herohde/morlock/pkg/board"
	"github.com/herohde/morlock/pkg/board/fen"
	"github.com/herohde/morlock/pkg/engine"
	"github.com/herohde/morlock/pkg/eval"
	"github.com/herohde/morlock/pkg/search"
	"github.com/herohde/morlock/pkg/search/searchctl"
	"verif/harness/internal/out"
	"verif/harness/internal/proj"
)

func init() {
	register("tthammer", "concurrent Read/Write histories on a real transposition table (C17)", tthammer)
}

type ttCall struct {
	stamp int64
	ev    out.M
}

// tthammer: G goroutines hammer a real table of 1..4 slots with tagged payloads; every call
// is logged with an invocation and a response stamp drawn from one atomic counter (taken
// before the call starts / after it returns), so the real-time order of non-overlapping
// calls is recorded and overlapping calls are left to the specification to order.
func tthammer(args []string) {
	fs := flag.NewFlagSet("tthammer", flag.ExitOnError)
	seed := fs.Int64("seed", 1, "seed")
	n := fs.Int("n", 100, "number of histories")
	calls := fs.Int("calls", 10, "calls per goroutine")
	maxg := fs.Int("g", 4, "maximum goroutines")
	path := fs.String("out", "", "output ndjson")
	eng := fs.Bool("engine", false, "the tables an engine hands to its searches across new games, with halted searches still unwinding")
	_ = fs.Parse(args)

	r := rand.New(rand.NewSource(*seed))
	w := out.Create(*path)
	ctx := context.Background()
	if *eng {
		for i := 0; i < *n; i++ {
			engineTables(ctx, r, w)
		}
		w.Close()
		return
	}

	for hist := 0; hist < *n; hist++ {
		nslots := []int{1, 2, 4}[r.Intn(3)]
		tt := search.NewTranspositionTable(ctx, uint64(32*nslots))
		if int(tt.Size()>>5) != nslots {
			out.Fatalf("unexpected table size %v for %v slots", tt.Size(), nslots)
		}
		g := 2 + r.Intn(*maxg-1)
		nh := 1 + r.Intn(5) // few distinct hashes: heavy contention
		var clock int64
		var mu sync.Mutex
		var log []ttCall
		var wg sync.WaitGroup
		var id int64
		start := make(chan struct{})
		// a spinning barrier before every call makes the calls of one round start together
		var arrived int64
		barrier := func(round int) {
			atomic.AddInt64(&arrived, 1)
			for atomic.LoadInt64(&arrived) < int64(g*(round+1)) {
				_ = runtime.NumCPU // pure spin: the goroutines are fewer than the cores
			}
		}
		for gi := 0; gi < g; gi++ {
			wg.Add(1)
			gr := rand.New(rand.NewSource(r.Int63()))
			go func(gi int) {
				defer wg.Done()
				var mine []ttCall
				<-start
				for k := 0; k < *calls; k++ {
					barrier(k)
					cid := atomic.AddInt64(&id, 1)
					// hashes that share a slot, and hashes that even share their low 32 bits and differ above
					// only: the table must tell all of them apart. Logged as lo + 8*hi (same residue modulo the
					// slot count as the real hash, which TLC's 32-bit integers cannot hold)
					lo, hi := gr.Intn(nh), gr.Intn(3)
					h := board.ZobristHash(uint64(lo) | uint64(hi)<<uint(32+13*hi))
					hid := lo + 8*hi
					if gr.Intn(3) == 0 {
						inv := atomic.AddInt64(&clock, 1)
						bound, depth, score, mv, ok := tt.Read(h)
						resp := atomic.AddInt64(&clock, 1)
						mine = append(mine, ttCall{inv, out.M{"op": "inv", "id": cid, "g": gi, "call": "r", "h": hid}})
						mine = append(mine, ttCall{resp, out.M{"op": "resp", "id": cid, "ok": proj.B2I(ok), "bound": int(bound), "depth": depth,
							"score": proj.ScoreOf(score), "mv": proj.Move(mv)}})
					} else {
						// the payload carries writer and sequence number in every field, so a mixture of two
						// writes' fields would be recognisable
						tag := gi*100 + k
						bound := search.Bound(tag % 2)
						// plies of short and of long games (no game is longer than about 11 800 plies)
						ply, depth := gr.Intn(4), gr.Intn(3)
						switch gr.Intn(6) {
						case 0:
							ply = 250 + gr.Intn(12)
						case 1:
							ply = []int{511, 512, 1023, 1025, 4096, 11800}[gr.Intn(6)] + gr.Intn(3)
						case 2, 3:
							// different (ply, depth) of equal replacement value ply + 2*depth
							pd := [][2]int{{4, 0}, {2, 1}, {0, 2}, {6, 0}, {4, 1}, {2, 2}}[gr.Intn(6)]
							ply, depth = pd[0], pd[1]
						}
						score := eval.HeuristicScore(eval.Pawns(tag))
						if tag%5 == 0 {
							score = eval.MateInXScore(int8(1 + tag%100))
						}
						mv := board.Move{From: board.Square(tag % 64), To: board.Square((tag / 64) % 64), Promotion: board.Piece(1 + tag%6)}
						inv := atomic.AddInt64(&clock, 1)
						ok := tt.Write(h, bound, ply, depth, score, mv)
						resp := atomic.AddInt64(&clock, 1)
						mine = append(mine, ttCall{inv, out.M{"op": "inv", "id": cid, "g": gi, "call": "w", "h": hid, "bound": int(bound),
							"ply": ply, "depth": depth, "score": proj.ScoreOf(score), "mv": proj.Move(mv)}})
						mine = append(mine, ttCall{resp, out.M{"op": "resp", "id": cid, "ok": proj.B2I(ok), "bound": 0, "depth": 0,
							"score": proj.ScoreOf(eval.Score{}), "mv": []int{0, 0, 0}}})
					}
				}
				mu.Lock()
				log = append(log, mine...)
				mu.Unlock()
			}(gi)
		}
		close(start)
		wg.Wait()
		sort.Slice(log, func(i, j int) bool { return log[i].stamp < log[j].stamp })
		w.Emit(out.M{"op": "ttreset", "slots": nslots, "g": g})
		for _, c := range log {
			w.Emit(c.ev)
		}
		w.Emit(out.M{"op": "used", "used": int(tt.Used()*float64(nslots) + 0.5), "frac1000": int(tt.Used() * 1000), "slots": nslots})
	}
	w.Close()
}

// unwinding is a search that returns at once for depth 1 and from depth 2 on keeps storing entries
// (hash = slot index) until released, whatever its context says: a halted search that has not
// noticed yet.
type unwinding struct {
	mu      sync.Mutex
	writers []*writerT
	release chan struct{}
}

type writerT struct {
	started, exited chan struct{}
}

func (u *unwinding) Search(ctx context.Context, sctx *search.Context, b *board.Board, depth int) (uint64, eval.Score, []board.Move, error) {
	move := board.Move{From: board.E2, To: board.E4}
	if depth == 1 {
		return 1, eval.HeuristicScore(0), []board.Move{move}, nil
	}
	wr := &writerT{started: make(chan struct{}), exited: make(chan struct{})}
	u.mu.Lock()
	u.writers = append(u.writers, wr)
	u.mu.Unlock()
	defer close(wr.exited)
	mask := (sctx.TT.Size() >> 5) - 1
	var i uint64
	for n := 0; ; n++ {
		if n == 1000 {
			close(wr.started)
		}
		if n&0xff == 0 {
			select {
			case <-u.release:
				return 0, eval.Score{}, nil, search.ErrHalted
			default:
			}
		}
		sctx.TT.Write(board.ZobristHash(i), search.ExactBound, 1, 2, eval.HeuristicScore(1), move)
		i = (i + 7919) & mask
	}
}

func (u *unwinding) waitStarted(k int) {
	for {
		u.mu.Lock()
		var wr *writerT
		if len(u.writers) > k {
			wr = u.writers[k]
		}
		u.mu.Unlock()
		if wr != nil {
			<-wr.started
			return
		}
		time.Sleep(100 * time.Microsecond)
	}
}

// engineTables: an engine with a table; a search is started and halted by new games (Reset) while it
// is still storing; sometimes the new game is searched too, so that two generations of searches
// store at once.  When all is quiet every table the engine ever handed out must count exactly
// its occupied slots.
func engineTables(ctx context.Context, r *rand.Rand, w *out.Writer) {
	var mu sync.Mutex
	var tables []search.TranspositionTable
	factory := func(ctx context.Context, size uint64) search.TranspositionTable {
		tt := search.NewTranspositionTable(ctx, size)
		mu.Lock()
		tables = append(tables, tt)
		mu.Unlock()
		return tt
	}
	root := &unwinding{release: make(chan struct{})}
	e := engine.New(ctx, "tables", "verif", root, engine.WithTable(factory), engine.WithOptions(engine.Options{Hash: 1}))
	launched := 0
	analyze := func() {
		if _, err := e.Analyze(ctx, searchctl.Options{}); err != nil {
			out.Fatalf("analyze: %v", err)
		}
		root.waitStarted(launched)
		launched++
	}
	analyze()
	resets := 1 + r.Intn(6)
	for k := 0; k < resets; k++ {
		if err := e.Reset(ctx, fen.Initial); err != nil {
			out.Fatalf("reset: %v", err)
		}
		time.Sleep(time.Duration(r.Intn(1500)) * time.Microsecond)
		if r.Intn(3) == 0 {
			analyze()
		}
	}
	close(root.release)
	_, _ = e.Halt(ctx)
	root.mu.Lock()
	ws := append([]*writerT{}, root.writers...)
	root.mu.Unlock()
	for _, wr := range ws {
		<-wr.exited
	}
	var ts []out.M
	for _, tt := range tables {
		n := tt.Size() >> 5
		occupied := 0
		for i := uint64(0); i < n; i++ {
			if _, _, _, _, ok := tt.Read(board.ZobristHash(i)); ok {
				occupied++
			}
		}
		ts = append(ts, out.M{"slots": n, "occupied": occupied, "counted": int(tt.Used()*float64(n) + 0.5), "frac1000": int(tt.Used() * 1000)})
	}
	w.Emit(out.M{"op": "engine-tables", "resets": resets, "searches": launched, "tables": ts})
}
