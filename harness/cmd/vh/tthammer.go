package main

import (
	"context"
	"flag"
	"math/rand"
	"runtime"
	"sort"
	"sync"
	"sync/atomic"

	"github.com/herohde/morlock/pkg/board"
	"github.com/herohde/morlock/pkg/eval"
	"github.com/herohde/morlock/pkg/search"
	"verif/harness/internal/out"
	"verif/harness/internal/proj"
)

func init() {
	register("tthammer", "concurrent Read/Write histories on a real transposition table (C17)", tthammer)
}

type ttCall struct {
	stamp int64
	ev    out.M
}

// tthammer: G goroutines hammer a real table of 1..4 slots with tagged payloads; every call
// is logged with an invocation and a response stamp drawn from one atomic counter (taken
// before the call starts / after it returns), so the real-time order of non-overlapping
// calls is recorded and overlapping calls are left to the specification to order.
func tthammer(args []string) {
	fs := flag.NewFlagSet("tthammer", flag.ExitOnError)
	seed := fs.Int64("seed", 1, "seed")
	n := fs.Int("n", 100, "number of histories")
	calls := fs.Int("calls", 10, "calls per goroutine")
	maxg := fs.Int("g", 4, "maximum goroutines")
	path := fs.String("out", "", "output ndjson")
	_ = fs.Parse(args)

	r := rand.New(rand.NewSource(*seed))
	w := out.Create(*path)
	ctx := context.Background()

	for hist := 0; hist < *n; hist++ {
		nslots := []int{1, 2, 4}[r.Intn(3)]
		tt := search.NewTranspositionTable(ctx, uint64(32*nslots))
		if int(tt.Size()>>5) != nslots {
			out.Fatalf("unexpected table size %v for %v slots", tt.Size(), nslots)
		}
		g := 2 + r.Intn(*maxg-1)
		nh := 1 + r.Intn(5) // few distinct hashes: heavy contention
		var clock int64
		var mu sync.Mutex
		var log []ttCall
		var wg sync.WaitGroup
		var id int64
		start := make(chan struct{})
		// a spinning barrier before every call makes the calls of one round start together
		var arrived int64
		barrier := func(round int) {
			atomic.AddInt64(&arrived, 1)
			for atomic.LoadInt64(&arrived) < int64(g*(round+1)) {
				_ = runtime.NumCPU // pure spin: the goroutines are fewer than the cores
			}
		}
		for gi := 0; gi < g; gi++ {
			wg.Add(1)
			gr := rand.New(rand.NewSource(r.Int63()))
			go func(gi int) {
				defer wg.Done()
				var mine []ttCall
				<-start
				for k := 0; k < *calls; k++ {
					barrier(k)
					cid := atomic.AddInt64(&id, 1)
					// hashes that share a slot, and hashes that even share their low 32 bits and differ above
					// only: the table must tell all of them apart. Logged as lo + 8*hi (same residue modulo the
					// slot count as the real hash, which TLC's 32-bit integers cannot hold)
					lo, hi := gr.Intn(nh), gr.Intn(3)
					h := board.ZobristHash(uint64(lo) | uint64(hi)<<uint(32+13*hi))
					hid := lo + 8*hi
					if gr.Intn(3) == 0 {
						inv := atomic.AddInt64(&clock, 1)
						bound, depth, score, mv, ok := tt.Read(h)
						resp := atomic.AddInt64(&clock, 1)
						mine = append(mine, ttCall{inv, out.M{"op": "inv", "id": cid, "g": gi, "call": "r", "h": hid}})
						mine = append(mine, ttCall{resp, out.M{"op": "resp", "id": cid, "ok": proj.B2I(ok), "bound": int(bound), "depth": depth,
							"score": proj.ScoreOf(score), "mv": proj.Move(mv)}})
					} else {
						// the payload carries writer and sequence number in every field, so a mixture of two
						// writes' fields would be recognisable
						tag := gi*100 + k
						bound := search.Bound(tag % 2)
						ply, depth := gr.Intn(4), gr.Intn(3)
						score := eval.HeuristicScore(eval.Pawns(tag))
						if tag%5 == 0 {
							score = eval.MateInXScore(int8(1 + tag%100))
						}
						mv := board.Move{From: board.Square(tag % 64), To: board.Square((tag / 64) % 64), Promotion: board.Piece(1 + tag%6)}
						inv := atomic.AddInt64(&clock, 1)
						ok := tt.Write(h, bound, ply, depth, score, mv)
						resp := atomic.AddInt64(&clock, 1)
						mine = append(mine, ttCall{inv, out.M{"op": "inv", "id": cid, "g": gi, "call": "w", "h": hid, "bound": int(bound),
							"ply": ply, "depth": depth, "score": proj.ScoreOf(score), "mv": proj.Move(mv)}})
						mine = append(mine, ttCall{resp, out.M{"op": "resp", "id": cid, "ok": proj.B2I(ok), "bound": 0, "depth": 0,
							"score": proj.ScoreOf(eval.Score{}), "mv": []int{0, 0, 0}}})
					}
				}
				mu.Lock()
				log = append(log, mine...)
				mu.Unlock()
			}(gi)
		}
		close(start)
		wg.Wait()
		sort.Slice(log, func(i, j int) bool { return log[i].stamp < log[j].stamp })
		w.Emit(out.M{"op": "ttreset", "slots": nslots, "g": g})
		for _, c := range log {
			w.Emit(c.ev)
		}
		w.Emit(out.M{"op": "used", "used": int(tt.Used()*float64(nslots) + 0.5), "frac1000": int(tt.Used() * 1000), "slots": nslots})
	}
	w.Close()
}
