package main

import (
	"context"
	"flag"
	"math/rand"
	"sync"

	"github.com/herohde/morlock/pkg/search"
	"verif/harness/internal/sdump"
)

func init() {
	register("ttsearch", "real searches sharing one table concurrently, incl. a halted search still unwinding (C17, run under -race)", ttsearch)
}

// ttsearch reproduces the engine's own overlap: a search is halted and, while it is still
// unwinding, its successor already runs on the same table; plus plain concurrent searches.
// It produces no trace: it exists to be run under the race detector.
func ttsearch(args []string) {
	fs := flag.NewFlagSet("ttsearch", flag.ExitOnError)
	seed := fs.Int64("seed", 1, "seed")
	n := fs.Int("n", 3, "rounds")
	_ = fs.Parse(args)
	r := rand.New(rand.NewSource(*seed))
	ctx := context.Background()
	roots := makeRoots(r, *n, false, false, false)
	for _, root := range roots {
		tt := search.NewTranspositionTable(ctx, []uint64{64, 4 << 10, 1 << 20}[r.Intn(3)])
		var wg sync.WaitGroup
		for g := 0; g < 3; g++ {
			wg.Add(1)
			c := sdump.NewConfig([]string{"hash", "morlock", "qshash"}[g])
			at := 0
			if g == 0 {
				at = 50 + r.Intn(400) // this one is halted somewhere in the middle and unwinds
			}
			go func(c *sdump.Config, at int) {
				defer wg.Done()
				cc := sdump.NewCountCtx(at)
				_, _, _, _ = c.Search.Search(cc, &search.Context{TT: tt}, root.b.Fork(), 3)
				_ = tt.Used()
			}(c, at)
		}
		wg.Wait()
	}
}
